"""C05 — reactions conserve mass and atoms and convert exactly X of the reactant.
Correspondence harness, generators and direct oracle."""
import numpy as np
from fractions import Fraction as F
from vf import q, qlist, clist, cbool, cnat, copt, frac, fr_json

ID = 'C05'
COQ_DIR = 'C05'
COQ_HEADER = 'From V Require Import Common.Num C05.Model.\nOpen Scope Q_scope.'
RULE = ('atomically balanced stoichiometries drawn from the null space of the C/H/O formula matrix of an 8-chemical stub '
        'package (integer molecular weights, dyadic and a few non-dyadic coefficients, any participating chemical as reactant), '
        'written as strings or dicts (so _parse/_xparse are exercised), mol and wt basis (constructed or re-based), used alone '
        'or as ParallelReaction / SeriesReaction / ReactionSystem of 1-4 reactions, phase-less or phase-tagged, applied to '
        'Stream / MultiStream, numpy arrays, bare SparseVector / SparseArray, the mass view, streams on three other packages, '
        'and the reaction object itself moved to one of those packages by reset_chemicals and used there (one chemical ID '
        'begins with the letter e, which the string parsers must not read as an exponent) '
        '(permuted, subset, superset) and malformed inputs (unknown chemical/phase, repeated chemical, missing reactant, '
        'mixed bases, wrong shapes, phase mismatch, infeasible conversions, the 1e-12 clamp window). Compared: constructor '
        'exception class, call exception class, all flows after the call (1e-9 relative), flows left behind by an exception. '
        'About 30 % of the well-formed cases first run a history of 1-5 operations on COPIES of the members (item / slice item '
        'copy with and without re-basing, backwards, basis setter and copy/backwards of the derived reactions) before the '
        'original object is applied; per-step success, the derived reactions and object identity of the arrays are compared too. '
        'The history steps also include in-place += / -= of derived reactions (bases may differ), correct_atomic_balance with '
        'explicit constants (the linear solve is an oracle computed exactly by the harness) and set.copy(basis); in two extra '
        'families (unbalanced reaction corrected and used; versions of one reaction on different bases lumped and used) and in '
        'half of the other histories a DERIVED reaction is what gets applied. Streams may have cached mass/volume views. '
        'Deepening round: (a) every correct_atomic_balance step hands the model the constants, the formula rows and the '
        'arguments numpy.linalg.solve / lstsq actually received (recorded by wrapping them in the harness): the model builds '
        'A and b itself and only accepts the recorded answer for exactly those; (b) force_reaction on phase-less objects '
        '(plain, co-reactant short, and negatives negligible against 2^60 of an inert chemical); (c) Reaction.conversion / '
        '_conversion of sets and systems; (d) ReactionSystems nested in ReactionSystems (depth <= 3, <= 5 reactions, a leaf '
        're-based afterwards in 30 %); (e) for streams of another package everything the stream holds after the call is '
        'compared, exception or not (data, and whether its indexer refers to the reaction package). '
        'non-trivial = the call returned normally and changed a flow, or raised; distinct = distinct case hash')
ASSUMPTIONS = ['oracle: numpy.linalg.solve / lstsq inside correct_atomic_balance, contract A x = b (solver_contract); the answer given '
               'to the model is the exact rational solution of the exact system, the arguments are the recorded ones',
               'float rounding is not modelled: values compared to 1e-9 relative; inputs are dyadic so branch decisions agree',
               'molecular weights are positive (Chemical replaces a missing MW by 1)']
TRUSTED = ['remove_negligible_negative_values: the harness probes the tree once by behaviour and passes legacy = true (entry k deleted, unrepaired) or false (pending_fixes/C05_3) to the model; on the legacy path the negatives are taken in index order (the dictionary order of the implementation '
           'coincides with it for the generated feeds, which hold every chemical)',
           'formula array: only its non-zero rows (C, H, O) are given to the model (asserted at start-up)',
           'model coq/C05/Model.v is hand-written from thermosteam/reaction/_reaction.py, _parse.py, _xparse.py, '
           'indexer.py reset_chemicals and base/dictionary_view.py MassFlowDict; tie = correspondence check',
           'the harness flattens (phase, chemical) row-major and computes the CAS index tables between packages',
           'stub chemicals: Chemical._MW is overwritten with integer weights (H=1, C=12, O=16) so that MW.S = 0 exactly']

N = 8
IDS = ['Ca', 'Cb', 'Cc', 'Cd', 'Ce', 'Cf', 'Cg', 'eH']      # one ID begins with 'e' (the parsers treat 'e' as an exponent mark)
FORMULAS = ['CH4', 'C2H4', 'O2', 'CO2', 'H2O', 'H2', 'C2H6O', 'CO']
ATOMS = [(1, 4, 0), (2, 4, 0), (0, 0, 2), (1, 0, 2), (0, 2, 1), (0, 2, 0), (2, 6, 1), (1, 0, 1)]   # C, H, O
AW = (12, 1, 16)
MW = [sum(a * w for a, w in zip(at, AW)) for at in ATOMS]
MWX = dict(zip(IDS, MW), Cz=30)
PKG = {'B': ['Ce', 'Cc', 'Ca', 'Cd', 'eH', 'Cb', 'Cf'],            # permuted, lacks Cg
       'C': ['Ca', 'Cc', 'Cd'],                                    # small subset
       'D': ['Ca', 'Cb', 'Cc', 'Cz', 'Cd', 'Ce', 'Cf', 'Cg', 'eH']}  # superset with an extra chemical
PH = {'g': 1, 'l': 2, 's': 3, 'L': 4, 'S': 5}
ERR = {'InfeasibleRegion': 'EInfeasible', 'ValueError': 'EValue', 'TypeError': 'EType', 'IndexError': 'EIndex',
       'RuntimeError': 'ERuntime', 'UndefinedChemicalAlias': 'EKey', 'UndefinedChemical': 'EKey',
       'UndefinedPhase': 'EUndefPhase', 'ZeroDivisionError': 'EZeroDiv', 'KeyError': 'EKey'}

_env = {}
def env():
    if not _env:
        import thermosteam as tmo
        def mk(ID, formula):
            c = tmo.Chemical(ID, search_db=False, formula=formula, Hf=0., Cn=64., phase='l', default=True)
            c._MW = float(sum(AW['CHO'.index(a)] * n for a, n in c.atoms.items()))
            return c
        cs = {i: mk(i, f) for i, f in zip(IDS, FORMULAS)}
        cs['Cz'] = mk('Cz', 'CH2O')
        thermo = {'A': tmo.Thermo(tmo.Chemicals([cs[i] for i in IDS]))}
        for k, ids in PKG.items():
            thermo[k] = tmo.Thermo(tmo.Chemicals([cs[i] for i in ids]))
        tmo.settings.set_thermo(thermo['A'])
        assert list(thermo['A'].chemicals.MW) == [float(x) for x in MW]
        fa = thermo['A'].chemicals.formula_array
        rows = [i for i in range(fa.shape[0]) if fa[i].any()]
        assert sorted(map(tuple, fa[rows, :].tolist())) == sorted(tuple(float(a[r]) for a in ATOMS) for r in range(3))
        _env.update(tmo=tmo, thermo=thermo, formula=fa[rows, :])
    return _env

# ------------------------------------------------------------------ generators
def phase_row(ph, p):
    """PhaseIndexer: a phase also answers to its other-case spelling when that one is not a phase itself"""
    if p in ph: return ph.index(p)
    q_ = p.lower() if p.isupper() else p.upper()
    return ph.index(q_) if q_ in ph else None

def nullspace(cols):
    """basis of the null space of the formula matrix restricted to the chemicals in cols (Fractions)"""
    A = [[F(ATOMS[c][r]) for c in cols] for r in range(3)]
    m, n = 3, len(cols)
    piv, r = [], 0
    for c in range(n):
        p = next((i for i in range(r, m) if A[i][c] != 0), None)
        if p is None: continue
        A[r], A[p] = A[p], A[r]
        A[r] = [x / A[r][c] for x in A[r]]
        for i in range(m):
            if i != r and A[i][c] != 0:
                A[i] = [x - A[i][c] * y for x, y in zip(A[i], A[r])]
        piv.append(c); r += 1
        if r == m: break
    free = [c for c in range(n) if c not in piv]
    basis = []
    for f in free:
        v = [F(0)] * n
        v[f] = F(1)
        for i, c in enumerate(piv):
            v[c] = -A[i][f]
        basis.append(v)
    return basis

SCALES = [F(1), F(1), F(2), F(1, 2), F(1, 4), F(3, 2), F(1, 3)]
XS = [F(1, 2), F(1, 4), F(1, 8), F(3, 4), F(1), F(1), F(0), F(3, 8)]
FEED = [F(0), F(1), F(2), F(4), F(1, 2), F(8), F(3), F(16), F(32), F(64), F(1, 1024), F(1 << 16)]

def balanced_vector(rng):
    for _ in range(100):
        cols = sorted(rng.sample(range(N), rng.randint(3, 6)))
        basis = nullspace(cols)
        if not basis: continue
        v = [F(0)] * len(cols)
        for b in basis:
            k = rng.choice([-2, -1, 0, 1, 1, 2])
            v = [x + k * y for x, y in zip(v, b)]
        den = 1
        for x in v: den = den * x.denominator // np.gcd(den, x.denominator)
        v = [x * int(den) for x in v]
        if sum(1 for x in v if x) < 2 or max(abs(x) for x in v) > 12: continue
        s = rng.choice(SCALES)
        if rng.random() < 0.5: v = [-x for x in v]
        return {cols[i]: v[i] * s for i in range(len(cols)) if v[i]}
    return {0: F(-1), 2: F(-2), 3: F(1), 4: F(2)}

def gen_rxn(rng, phases, basis, malformed=None):
    st = balanced_vector(rng)
    balanced = True
    if malformed == 'unbalanced':
        k = rng.choice(list(st)); st[k] = st[k] + rng.choice([F(1), F(-1, 2)]); balanced = False
        if st[k] == 0: st[k] = F(3)
    chems = list(st)
    rng.shuffle(chems)
    negs = [c for c in chems if st[c] < 0]
    reactant = rng.choice(negs) if negs and rng.random() < 0.85 else rng.choice(chems)
    phase_of = {c: rng.choice(phases) for c in chems} if phases else {c: None for c in chems}
    construct_basis = basis if rng.random() < 0.5 else ('mol' if basis == 'wt' else basis)
    coef = dict(st)
    if construct_basis == 'wt':
        coef = {c: v * MW[c] for c, v in st.items()}
    form = rng.choice(['str', 'str', 'dict'])
    order = chems
    if form == 'str':
        order = [c for c in chems if coef[c] < 0] + [c for c in chems if coef[c] > 0]
        if not any(coef[c] < 0 for c in chems) or not any(coef[c] > 0 for c in chems): form = 'dict'
    terms = [[phase_of[c], IDS[c], float(coef[c])] for c in order]
    spec = {'terms': terms, 'form': form, 'omit1': rng.random() < 0.5,
            'reactant': IDS[reactant], 'X': float(rng.choice(XS)), 'basis': construct_basis,
            'rebase': basis if construct_basis != basis else None, 'balanced': balanced}
    if len(negs) == 1 and rng.random() < 0.3:
        spec['reactant'] = None
    if malformed == 'dup' and form == 'str':
        spec['terms'].append(list(spec['terms'][0]))
        spec['terms'].sort(key=lambda t: t[2] > 0)
    elif malformed == 'unknown':
        spec['terms'].insert(rng.randrange(len(terms) + 1), [rng.choice(phases) if phases else None, 'Zz', -1.0 if form == 'dict' else 1.0])
        if form == 'str': spec['terms'].sort(key=lambda t: t[2] > 0)
    elif malformed == 'badphase' and phases:
        spec['terms'][rng.randrange(len(terms))][0] = rng.choice([p for p in 'gls' if p not in phases] or ['S']) if rng.random() < 0.8 else phases[-1].upper()
    elif malformed == 'noreactant':
        spec['reactant'] = None
    elif malformed == 'absent':
        spec['reactant'] = rng.choice([i for i in IDS if i not in [t[1] for t in terms]])
    elif malformed == 'bigX':
        spec['X'] = float(rng.choice([F(3, 2), F(2), F(-1, 2)]))
    return spec

BIG = [F(64), F(128), F(256), F(512), F(1024), F(96), F(160)]
SMALL = [F(1), F(2), F(4), F(1, 2), F(3), F(0), F(1, 4), F(8)]

def gen_feed(rng, case, size, rich, layout=None):
    """rich: plenty of every chemical except the reactants (mostly feasible); layout: chemical ID per position"""
    if not rich:
        return [float(rng.choice(FEED)) for _ in range(size)]
    reactants = {s['reactant'] for s in case['rxns']}
    for s in case['rxns']:
        if s['reactant'] is None:
            reactants |= {t[1] for t in s['terms'] if t[2] < 0}
    if layout is None:
        layout = [IDS[k % N] for k in range(size)]
    return [float(rng.choice(SMALL if layout[k] in reactants else BIG)) for k in range(size)]

def gen_case(rng):
    phases = rng.choice([[], [], [], ['g', 'l'], ['l', 's'], ['g', 'l', 's']])
    kind = rng.choice(['single', 'single', 'single', 'parallel', 'series', 'system'])
    basis = rng.choice(['mol', 'mol', 'wt'])
    mal = None
    u = rng.random()
    if u < 0.16:
        mal = rng.choice(['unbalanced', 'dup', 'unknown', 'badphase', 'noreactant', 'absent', 'bigX', 'bigX', 'mixed'])
    def rx(m=None): return gen_rxn(rng, phases, basis, m)
    case = {'phases': phases, 'kind': kind}
    if kind == 'single':
        case['rxns'] = [rx(mal if mal != 'mixed' else None)]
    elif kind in ('parallel', 'series'):
        n = rng.randint(1, 4)
        case['rxns'] = [rx() for _ in range(n)]
        if mal and mal != 'mixed':
            case['rxns'][rng.randrange(n)] = rx(mal)
        if mal == 'mixed' and n > 1:
            r = case['rxns'][-1]
            r['rebase'] = 'wt' if basis == 'mol' else 'mol'
            if r['rebase'] == r['basis']: r['rebase'] = None; r['basis'] = 'wt' if basis == 'mol' else 'mol'
    else:
        parts, rxns = [], []
        for _ in range(rng.randint(1, 3)):
            k = rng.choice(['single', 'single', 'parallel', 'series'])
            n = 1 if k == 'single' else rng.randint(1, 3)
            parts.append([k, list(range(len(rxns), len(rxns) + n))])
            rxns += [rx() for _ in range(n)]
        rxns = rxns[:4] if len(rxns) > 4 and False else rxns
        case['rxns'] = rxns
        case['parts'] = parts
        if mal and mal != 'mixed':
            case['rxns'][rng.randrange(len(rxns))] = rx(mal)
        singles = [i for i, p in enumerate(parts) if p[0] == 'single']
        if singles and rng.random() < 0.25:
            case['post_rebase'] = [rng.choice(singles), 'wt' if basis == 'mol' else 'mol']
    # material
    P = max(1, len(phases))
    if phases:
        mk = rng.choice(['stream'] * 5 + ['numpy', 'numpy', 'sparse', 'sparse', 'other', 'other', 'badphases', 'numpybaddim'])
    else:
        mk = rng.choice(['stream'] * 5 + ['numpy', 'numpy', 'sparse', 'massview', 'other', 'other', 'other', 'numpybaddim',
                                          'numpylen'] + (['multinophase'] if kind == 'single' else []))
    if kind != 'system' and mal is None and rng.random() < 0.08:
        mk = 'retarget'        # the reaction object itself is moved to another package (reset_chemicals), then used there
    mat = {'kind': mk}
    rich = rng.random() < 0.75
    if mk == 'retarget':
        pkg = rng.choice(['B', 'B', 'D', 'D', 'C'])
        mat['pkg'] = pkg
        mat['sub'] = rng.choice(['stream', 'stream', 'numpy'])
        mat['flows'] = gen_feed(rng, case, P * len(PKG[pkg]), rich, [i for _ in range(P) for i in PKG[pkg]])
        case['material'] = mat
        return case
    if mk == 'other':
        pkg = rng.choice(['B', 'B', 'D', 'D', 'C'])
        mat['pkg'] = pkg
        mat['flows'] = gen_feed(rng, case, P * len(PKG[pkg]), rich, [i for _ in range(P) for i in PKG[pkg]])
        if rng.random() < 0.6:      # keep chemicals the reaction's package lacks at zero most of the time
            for p in range(P):
                for j, i in enumerate(PKG[pkg]):
                    if i not in IDS: mat['flows'][p * len(PKG[pkg]) + j] = 0.0
    elif mk == 'multinophase':
        mat['P'] = rng.choice([2, 3])
        mat['flows'] = gen_feed(rng, case, mat['P'] * N, rich)
        for k in range(len(mat['flows'])):
            if rng.random() < 0.6: mat['flows'][k] = 0.0
    elif mk == 'badphases':
        alt = [p for p in (['g', 'l'], ['l', 's'], ['g', 'l', 's'], ['g', 's']) if p != phases]
        mat['stream_phases'] = rng.choice(alt)
        mat['flows'] = gen_feed(rng, case, len(mat['stream_phases']) * N, rich)
    elif mk == 'numpybaddim':
        mat['flows'] = gen_feed(rng, case, N if phases else 2 * N, rich)
    elif mk == 'numpylen':
        case.pop('post_rebase', None)    # which of the two exceptions comes first depends on the part order; not modelled
        mat['flows'] = gen_feed(rng, case, N + rng.choice([-1, 1]), rich)
    else:
        mat['flows'] = gen_feed(rng, case, P * N, rich)
        if mk == 'numpy' and rng.random() < 0.05:
            mat['flows'][rng.randrange(P * N)] = -1.0
    case['material'] = mat
    if mal is None and not case.get('post_rebase') and rng.random() < 0.35:
        case['history'] = gen_history(rng, case)
        if mk not in ('stream', 'numpy', 'sparse'): case.pop('use_derived', None)
        elif 'use_derived' not in case and rng.random() < 0.5:
            case['use_derived'] = rng.randrange(64)       # apply one of the derived reactions instead of the original
        if case.get('use_derived') is None: case.pop('use_derived', None)
    if mk in ('stream', 'other', 'massview') and rng.random() < 0.3:
        mat['pre_views'] = True                           # mass / volume views of the stream exist (are cached) beforehand
    return case

def gen_history(rng, case):
    ops = []
    ids_in = sorted({t[1] for s in case['rxns'] for t in s['terms'] if t[1] in IDS})
    def reactant(): return rng.choice([None, None] + ids_in)
    def X(): return rng.choice([None, None, 0.5, 0.25, 1.0])
    if rng.random() < 0.3:
        # family: several versions of ONE member (bases may differ), lumped in place, then some more
        m = rng.randrange(64)
        nc = rng.randint(2, 3)
        for _ in range(nc):
            ops.append(['itemcopy', m, 0, rng.choice([None, 'mol', 'wt', 'wt'])])
        for _ in range(rng.randint(1, 3)):
            j = rng.randrange(nc); k = rng.choice([x for x in range(nc) if x != j])
            ops.append([rng.choice(['iadd', 'iadd', 'isub']), j, k])
        case['use_derived'] = ops[-1][1] if rng.random() < 0.8 else None    # mostly: the lumped reaction is what gets applied
        return ops
    for _ in range(rng.randint(1, 5)):
        o = rng.choice(['itemcopy', 'itemcopy', 'itemcopy', 'itembackwards', 'setbasis', 'setbasis', 'copy', 'backwards',
                        'iadd', 'isub', 'cab', 'setcopy'])
        i = rng.randrange(64)
        if o == 'itemcopy': ops.append([o, i, rng.randrange(64), rng.choice([None, 'mol', 'wt', 'wt'])])
        elif o == 'itembackwards': ops.append([o, i, reactant(), X()])
        elif o == 'setbasis': ops.append([o, i, rng.choice(['mol', 'wt', 'wt'])])
        elif o == 'copy': ops.append([o, i, rng.choice([None, 'mol', 'wt'])])
        elif o in ('iadd', 'isub'): ops.append([o, i, rng.randrange(64)])
        elif o == 'cab': ops.append([o, i, rng.choice([None, [rng.randrange(8)], [rng.randrange(8), rng.randrange(8)]])])
        elif o == 'setcopy': ops.append([o, i, rng.choice([None, 'wt', 'wt', 'mol'])])
        else: ops.append([o, i, reactant(), X()])
    return ops

def gen_lump_case(rng):
    """versions of one balanced reaction on different bases lumped in place (+=, -=); the lump is applied"""
    phases = rng.choice([[], [], ['g', 'l'], ['l', 's']])
    basis = rng.choice(['mol', 'wt'])
    spec = gen_rxn(rng, phases, basis)
    spec['X'] = float(rng.choice([F(1, 8), F(1, 4), F(3, 8), F(1, 2)]))
    if spec['reactant'] is None: spec['reactant'] = next(t[1] for t in spec['terms'] if t[2] < 0)
    P = max(1, len(phases))
    other = 'wt' if basis == 'mol' else 'mol'
    hist = [['itemcopy', 0, 0, rng.choice([None, basis])], ['itemcopy', 0, 0, other]]
    if rng.random() < 0.4: hist.append(['itemcopy', 0, 0, rng.choice([None, 'mol', 'wt'])])
    nc = len(hist)
    j = rng.randrange(nc); k = rng.choice([x for x in range(nc) if x != j])
    hist.append(['iadd', j, k])
    if rng.random() < 0.4:
        k2 = rng.choice([x for x in range(nc) if x != j]); hist.append([rng.choice(['iadd', 'isub']), j, k2])
    case = {'phases': phases, 'kind': 'single', 'rxns': [spec], 'history': hist, 'use_derived': j}
    flows = gen_feed(rng, case, P * N, True)
    r = IDS.index(spec['reactant'])
    for p in range(P): flows[p * N + r] = float(rng.choice([1, 2, 4]))
    case['material'] = {'kind': rng.choice(['stream', 'stream', 'numpy']), 'flows': flows}
    return case

def gen_setcopy_case(rng):
    """a parallel / series set is copied to the other basis (and the copy perhaps used); then the ORIGINAL set is applied"""
    phases = rng.choice([[], [], ['g', 'l']])
    basis = rng.choice(['mol', 'mol', 'wt'])
    kind = rng.choice(['parallel', 'series'])
    case = {'phases': phases, 'kind': kind, 'rxns': [gen_rxn(rng, phases, basis) for _ in range(rng.randint(1, 3))]}
    for r in case['rxns']: r['X'] = float(rng.choice([F(1, 8), F(1, 4), F(1, 2)]))
    other = 'wt' if basis == 'mol' else 'mol'
    case['history'] = [['setcopy', 0, rng.choice([other, other, None])]]
    if rng.random() < 0.5: case['history'].append(['itemcopy', rng.randrange(8), 0, rng.choice([None, 'wt', 'mol'])])
    P = max(1, len(phases))
    case['material'] = {'kind': rng.choice(['stream', 'stream', 'numpy']), 'flows': gen_feed(rng, case, P * N, True)}
    return case

def gen_cab_case(rng):
    """an UNBALANCED reaction whose atomic balance is corrected holding some coefficients constant (possibly not the
    reactant's), then used"""
    phases = rng.choice([[], [], ['g', 'l'], ['g', 'l', 's']])
    basis = rng.choice(['mol', 'mol', 'wt'])
    spec = gen_rxn(rng, phases, basis, 'unbalanced')
    P = max(1, len(phases))
    case = {'phases': phases, 'kind': 'single', 'rxns': [spec],
            'history': [['itemcopy', 0, 0, None],
                        ['cab', 0, rng.choice([None, [rng.randrange(8)], [rng.randrange(8), rng.randrange(8)],
                                               [rng.randrange(8), rng.randrange(8), rng.randrange(8)]])]],
            'use_derived': 0}
    if rng.random() < 0.3: case['history'].append(['setbasis', 0, rng.choice(['mol', 'wt'])])
    case['material'] = {'kind': rng.choice(['stream', 'stream', 'numpy']), 'flows': gen_feed(rng, case, P * N, True)}
    return case

def window_case(short, two=False, basis='mol'):
    """Ca + Cc' style: co-reactant short of what full conversion needs by 2^-short"""
    d = float(F(1, 1 << short))
    flows = [0.0] * N
    flows[0] = 1.0; flows[2] = 2.0 - d; flows[3] = 0.0
    terms = [[None, 'Ca', -1.0], [None, 'Cc', -2.0], [None, 'Cd', 1.0], [None, 'Ce', 2.0]]
    rx = {'terms': terms, 'form': 'str', 'omit1': True, 'reactant': 'Ca', 'X': 1.0, 'basis': 'mol',
          'rebase': 'wt' if basis == 'wt' else None, 'balanced': True}
    rxns = [rx]
    if two:
        flows[1] = 1.0; flows[5] = 1.0 - d
        rxns = [rx, {'terms': [[None, 'Cb', -1.0], [None, 'Cf', -1.0], [None, 'Ca', 2.0]], 'form': 'dict', 'omit1': False,
                     'reactant': 'Cb', 'X': 1.0, 'basis': 'mol', 'rebase': 'wt' if basis == 'wt' else None, 'balanced': False}]
        flows[2] = 2.0 - d
    return {'phases': [], 'kind': 'parallel' if two else 'single', 'rxns': rxns,
            'material': {'kind': 'stream', 'flows': flows}}

WIT_MULTI = {'phases': [], 'kind': 'single',
             'rxns': [{'terms': [[None, 'Ca', -1.0], [None, 'Cc', -2.0], [None, 'Cd', 1.0], [None, 'Ce', 2.0]], 'form': 'str',
                       'omit1': True, 'reactant': 'Ca', 'X': 0.5, 'basis': 'mol', 'rebase': None, 'balanced': True}],
             'material': {'kind': 'multinophase', 'P': 2, 'flows': [4.0, 0.0, 16.0, 1.0, 1.0, 0.0, 0.0, 0.0, 2.0, 0.0, 32.0, 1.0, 1.0, 0.0, 0.0, 0.0]}}
SPARSE2 = {'phases': ['g', 'l'], 'kind': 'single',
           'rxns': [{'terms': [['g', 'Ca', -1.0], ['g', 'Cc', -2.0], ['g', 'Cd', 1.0], ['l', 'Ce', 2.0]], 'form': 'str',
                     'omit1': True, 'reactant': 'Ca', 'X': 0.5, 'basis': 'mol', 'rebase': None, 'balanced': True}],
           'material': {'kind': 'sparse', 'flows': [4.0, 0, 16.0, 0, 0, 0, 0, 0] + [0.0] * 4 + [1.0] + [0.0] * 3}}
OTHER_MULTI = {'phases': ['g', 'l'], 'kind': 'single', 'rxns': SPARSE2['rxns'],
               'material': {'kind': 'other', 'pkg': 'B', 'flows': [0.0, 16.0, 4.0, 0, 0, 0, 0] + [1.0] + [0.0] * 6}}

HIST = {'phases': [], 'kind': 'parallel',
        'rxns': [{'terms': [[None, 'Cf', -2.0], [None, 'Cc', -1.0], [None, 'Ce', 2.0]], 'form': 'str', 'omit1': True,
                  'reactant': 'Cf', 'X': 0.5, 'basis': 'mol', 'rebase': None, 'balanced': True},
                 {'terms': [[None, 'Ca', -1.0], [None, 'Cc', -2.0], [None, 'Cd', 1.0], [None, 'Ce', 2.0]], 'form': 'str',
                  'omit1': True, 'reactant': 'Ca', 'X': 0.25, 'basis': 'mol', 'rebase': None, 'balanced': True}],
        'material': {'kind': 'stream', 'flows': [4.0, 0.0, 256.0, 0.0, 1.0, 8.0, 0.0, 0.0]},
        'history': [['itemcopy', 0, 0, 'wt'], ['itemcopy', 1, 1, 'wt'], ['itemcopy', 1, 0, None], ['setbasis', 2, 'wt'],
                    ['itembackwards', 0, None, None], ['backwards', 0, 'Ce', 0.5]]}
HIST_SERIES = dict(HIST, kind='series')

MIXED = {'phases': [], 'kind': 'system', 'rxns': HIST['rxns'], 'parts': [['single', [0]], ['single', [1]]],
         'post_rebase': [1, 'wt'], 'material': {'kind': 'stream', 'flows': [4.0, 0.0, 256.0, 0.0, 1.0, 8.0, 0.0, 0.0]}}
MIXED_WT = {'phases': [], 'kind': 'system', 'rxns': [dict(r, rebase='wt') for r in HIST['rxns']],
            'parts': [['parallel', [0]], ['single', [1]]], 'post_rebase': [1, 'mol'],
            'material': {'kind': 'stream', 'flows': [4.0, 0.0, 256.0, 0.0, 1.0, 8.0, 0.0, 0.0]}}

_fl = {}
def force_legacy():
    """probe of the tree under test: does remove_negligible_negative_values delete entry k for the k-th negligible negative
    (source without pending_fixes/C05_3)?  Selects the legacy flag of the model's remove_negligible and whether the witness of
    the finding C05:force-negligible-mask is replayed."""
    if 'v' not in _fl:
        env()
        from thermosteam import functional as fn
        from thermosteam.base import SparseVector
        a = SparseVector([float(1 << 60), 1.0, -1.0 / 1024])
        fn.remove_negligible_negative_values(a)
        _fl['v'] = bool(a[0] == 0.0)
    return _fl['v']

# ---------------- deepening round: force_reaction, conversion, nested systems
HUGE = float(1 << 60)
def _nonzero(flows):
    return [0.25 if x == 0 else x for x in flows]

def gen_force_case(rng):
    """force_reaction on phase-less objects; a third of the cases end with negatives that are negligible against an inert
    chemical present in huge amount (the branch of remove_negligible_negative_values that masks entries)"""
    kind = rng.choice(['single', 'single', 'parallel', 'series', 'system'])
    basis = rng.choice(['mol', 'mol', 'wt'])
    case = {'phases': [], 'kind': kind, 'entry': 'force'}
    def rx(): return gen_rxn(rng, [], basis)
    if kind == 'single': case['rxns'] = [rx()]
    elif kind in ('parallel', 'series'): case['rxns'] = [rx() for _ in range(rng.randint(1, 3))]
    else:
        parts, rxns = [], []
        for _ in range(rng.randint(1, 2)):
            k = rng.choice(['single', 'parallel', 'series']); n = 1 if k == 'single' else rng.randint(1, 2)
            parts.append([k, list(range(len(rxns), len(rxns) + n))]); rxns += [rx() for _ in range(n)]
        case['rxns'] = rxns; case['parts'] = parts
    mk = rng.choice(['stream', 'stream', 'numpy', 'sparse', 'massview', 'other'])
    mat = {'kind': mk}
    mode = rng.choice(['plain', 'short', 'negligible'])
    if mk == 'other':
        pkg = rng.choice(['B', 'D']); mat['pkg'] = pkg
        layout = list(PKG[pkg])
    else:
        layout = list(IDS)
    flows = _nonzero(gen_feed(rng, case, len(layout), True, layout))
    used = {t[1] for s_ in case['rxns'] for t in s_['terms']}
    if mode != 'plain':
        s0 = case['rxns'][0]
        s0['X'] = 1.0
        react = s0['reactant'] or next(t[1] for t in s0['terms'] if t[2] < 0)
        co = [t for t in s0['terms'] if t[2] < 0 and t[1] != react and t[1] in layout]
        cr = next((t[2] for t in s0['terms'] if t[1] == react), None)
        if co and cr and cr < 0 and react in layout:
            c = rng.choice(co)
            fr = 4.0
            flows[layout.index(react)] = fr
            need = F(fr) * F(c[2]) / F(cr)
            if basis == 'wt' and s0['basis'] == 'wt':
                need = need * MWX[react] / MWX[c[1]]      # coefficients are per mass
            short = F(1, 1 << rng.choice([8, 10, 12]))
            if need > short: flows[layout.index(c[1])] = float(need - short)
        if mode == 'negligible':
            inert = [i for i in layout if i not in used]
            if inert: flows[layout.index(rng.choice(inert))] = HUGE
    if mk == 'other':
        for j, i in enumerate(layout):
            if i not in IDS: flows[j] = 0.0
    mat['flows'] = flows
    case['material'] = mat
    return case

def gen_conversion_case(rng):
    """Reaction.conversion(material) for single reactions; _conversion on a sparse vector for sets and systems"""
    kind = rng.choice(['single', 'single', 'parallel', 'series', 'system'])
    basis = rng.choice(['mol', 'mol', 'wt'])
    phases = rng.choice([[], [], ['g', 'l']])
    case = {'phases': phases, 'kind': kind, 'entry': 'conversion'}
    def rx(): return gen_rxn(rng, phases, basis)
    if kind == 'single': case['rxns'] = [rx()]
    elif kind in ('parallel', 'series'): case['rxns'] = [rx() for _ in range(rng.randint(1, 3))]
    else:
        parts, rxns = [], []
        for _ in range(rng.randint(1, 3)):
            k = rng.choice(['single', 'parallel', 'series']); n = 1 if k == 'single' else rng.randint(1, 2)
            parts.append([k, list(range(len(rxns), len(rxns) + n))]); rxns += [rx() for _ in range(n)]
        case['rxns'] = rxns; case['parts'] = parts
        singles = [i for i, p_ in enumerate(parts) if p_[0] == 'single']
        if singles and rng.random() < 0.25:
            case['post_rebase'] = [rng.choice(singles), 'wt' if basis == 'mol' else 'mol']
    P = max(1, len(phases))
    mk = rng.choice(['stream', 'stream', 'numpy', 'sparse'] + ([] if phases else ['massview'])) if kind == 'single' else 'sparse'
    case['material'] = {'kind': mk, 'flows': gen_feed(rng, case, P * N, rng.random() < 0.7)}
    return case

def gen_tree(rng, depth, mkrx, rxns):
    """nested structure: ['set', kind, [indices]] or ['sys', [children]]; at most 5 reactions in all (the exact rationals of
    the model grow with every reaction applied in sequence)"""
    if depth == 0 or rng.random() < 0.45 or len(rxns) >= 3:
        k = rng.choice(['single', 'single', 'parallel', 'series']); n = 1 if (k == 'single' or len(rxns) >= 4) else rng.randint(1, 2)
        idx = list(range(len(rxns), len(rxns) + n)); rxns += [mkrx() for _ in range(n)]
        return ['set', k, idx]
    return ['sys', [gen_tree(rng, depth - 1, mkrx, rxns) for _ in range(rng.randint(1, 3))]]

def tree_parts(t):
    if t[0] == 'set': return [[t[1], t[2]]]
    return [p_ for c in t[1] for p_ in tree_parts(c)]

def tree_single_paths(t, path=()):
    if t[0] == 'set': return [list(path)] if t[1] == 'single' else []
    return [q_ for i, c in enumerate(t[1]) for q_ in tree_single_paths(c, path + (i,))]

def gen_nested_case(rng):
    """ReactionSystem objects nested inside ReactionSystem objects (depth up to 3)"""
    phases = rng.choice([[], [], ['g', 'l']])
    basis = rng.choice(['mol', 'mol', 'wt'])
    rxns = []
    tree = ['sys', [gen_tree(rng, 2, lambda: gen_rxn(rng, phases, basis), rxns) for _ in range(rng.randint(1, 2))]]
    if not any(c[0] == 'sys' for c in tree[1]):
        tree[1].append(['sys', [gen_tree(rng, 1, lambda: gen_rxn(rng, phases, basis), rxns)]])
    case = {'phases': phases, 'kind': 'system', 'rxns': rxns, 'tree': tree, 'parts': tree_parts(tree)}
    paths = tree_single_paths(tree)
    if paths and rng.random() < 0.3:
        path = rng.choice(paths)
        # index of that part among the flattened parts
        def count(t, pth):
            if not pth: return 0
            return sum(len(tree_parts(c)) for c in t[1][:pth[0]]) + count(t[1][pth[0]], pth[1:])
        case['post_rebase'] = [count(tree, path), 'wt' if basis == 'mol' else 'mol']
        case['post_rebase_path'] = path
    P = max(1, len(phases))
    case['material'] = {'kind': rng.choice(['stream', 'stream', 'numpy', 'sparse']),
                        'flows': gen_feed(rng, case, P * N, rng.random() < 0.8)}
    return case

def other_exc_case(which, basis='mol', multi=False):
    """a stream of another package on which the call raises: infeasible (B), product the package lacks (C), stream
    chemical the reaction's package lacks (D)"""
    ph = ['g', 'l'] if multi else []
    t = (lambda p_, i, c: [p_ if multi else None, i, c])
    terms = [t('g', 'Ca', -1.0), t('g', 'Cc', -2.0), t('g', 'Cd', 1.0), t('l', 'Ce', 2.0)]
    rx = {'terms': terms, 'form': 'str', 'omit1': True, 'reactant': 'Ca', 'X': 1.0, 'basis': 'mol',
          'rebase': 'wt' if basis == 'wt' else None, 'balanced': True}
    pkg = {'infeasible': 'B', 'bwd': 'C', 'fwd': 'D'}[which]
    ids = PKG[pkg]; f = [0.0] * len(ids)
    if which == 'infeasible': f[ids.index('Ca')] = 4.0; f[ids.index('Cc')] = 2.0; f[ids.index('Cf')] = 3.0
    elif which == 'bwd': f = [4.0, 16.0, 1.0]
    else: f = [4.0, 1.0, 16.0, 2.0, 1.0, 0.0, 0.0, 0.0, 3.0]
    flows = f + ([0.0] * (len(ids) - 1) + [0.5] if multi else [])
    return {'phases': ph, 'kind': 'single', 'rxns': [rx], 'material': {'kind': 'other', 'pkg': pkg, 'flows': flows}}

WIT_FORCE = {'phases': [], 'kind': 'single', 'entry': 'force',
             'rxns': [{'terms': [[None, 'Cc', -1.0], [None, 'Cf', -2.0], [None, 'Ce', 2.0]], 'form': 'str', 'omit1': True,
                       'reactant': 'Cc', 'X': 1.0, 'basis': 'mol', 'rebase': None, 'balanced': True}],
             'material': {'kind': 'stream', 'flows': [HUGE, 1.0, 1.0, 1.0, 1.0, 2.0 - 1.0 / 1024, 1.0, 1.0]}}

CORPUS = [WIT_FORCE] + [other_exc_case(w, b, m) for w in ('infeasible', 'bwd', 'fwd') for b in ('mol', 'wt') for m in (False, True)] + [HIST, HIST_SERIES, MIXED, MIXED_WT, window_case(50), window_case(41), window_case(40), window_case(39), window_case(30), window_case(41, two=True),
          window_case(42, two=True), window_case(45, basis='wt'), window_case(41, basis='wt'),
          WIT_MULTI, SPARSE2, OTHER_MULTI]
WITNESSES = [{'key': 'C05:phaseless-reaction-on-multistream', 'case': WIT_MULTI}]
if force_legacy():      # repaired by pending_fixes/C05_3
    WITNESSES.append({'key': 'C05:force-negligible-mask', 'case': WIT_FORCE})

def gen_cases(rng, tier):
    n = 330 if tier == 'quick' else 6000
    return ([gen_case(rng) for _ in range(n)] + [gen_cab_case(rng) for _ in range(n // 11)]
            + [gen_lump_case(rng) for _ in range(n // 11)] + [gen_setcopy_case(rng) for _ in range(n // 22)]
            + [gen_force_case(rng) for _ in range(n // 8)] + [gen_conversion_case(rng) for _ in range(n // 11)]
            + [gen_nested_case(rng) for _ in range(n // 8)])

# ------------------------------------------------------------------ implementation side
def errname(ex):
    return ERR.get(type(ex).__name__, 'EOther')

def rxn_arg(case, spec):
    ph = case['phases']
    if spec['form'] == 'str':
        def t(p, i, c):
            name = f'{i},{p}' if ph else i
            a = abs(c)
            return name if (a == 1 and spec['omit1']) else f'{a!r} {name}'
        lhs = ' + '.join(t(*x) for x in spec['terms'] if x[2] < 0)
        rhs = ' + '.join(t(*x) for x in spec['terms'] if x[2] > 0)
        return f'{lhs} -> {rhs}'
    return {i: ((p, c) if ph else c) for p, i, c in spec['terms']}

def build_rxn(case, spec):
    tmo = env()['tmo']
    r = tmo.Reaction(rxn_arg(case, spec), reactant=spec['reactant'], X=spec['X'], basis=spec['basis'],
                     phases=''.join(case['phases']) or None)
    if spec['rebase']:
        r = r.copy(spec['rebase'])
    return r

def flat_ridx(r, P):
    if r._phases:
        p, j = r._reactant_index
        return int(p) * N + int(j)
    return int(r._reactant_index)

def snap(r):
    st = np.asarray(r._stoichiometry.to_array(), float).reshape(-1)
    return {'st': [fr_json(frac(x)) for x in st], 'ridx': flat_ridx(r, 0), 'X': fr_json(frac(r.X)),
            'wt': r._basis == 'wt', 'phases': [PH[p] for p in r._phases]}

def resolve_reactant(r, ident):
    """flat index Reaction.backwards(reactant=ident) selects"""
    j = IDS.index(ident)
    if r._phases:
        col = np.asarray(r._stoichiometry.to_array(), float)[:, j]
        p = len(col) - 1
        for k, x in enumerate(col):
            if x:
                p = k
                break
        return p * N + j
    return j

def frank(A):
    """rank and reduced form over the rationals"""
    A = [list(r) for r in A]; r = 0
    for c in range(len(A[0]) if A else 0):
        p = next((i for i in range(r, len(A)) if A[i][c] != 0), None)
        if p is None: continue
        A[r], A[p] = A[p], A[r]
        A[r] = [x / A[r][c] for x in A[r]]
        for i in range(len(A)):
            if i != r and A[i][c] != 0: A[i] = [x - A[i][c] * y for x, y in zip(A[i], A[r])]
        r += 1
    return r

def fsolve(A, b):
    """exact solution of the square non-singular system A x = b, None if singular"""
    n = len(A)
    M = [list(A[i]) + [b[i]] for i in range(n)]
    for c in range(n):
        p = next((i for i in range(c, n) if M[i][c] != 0), None)
        if p is None: return None
        M[c], M[p] = M[p], M[c]
        M[c] = [x / M[c][c] for x in M[c]]
        for i in range(n):
            if i != c and M[i][c] != 0: M[i] = [x - M[i][c] * y for x, y in zip(M[i], M[c])]
    return [M[i][n] for i in range(n)]

def cab_solution(r, constants, info=None):
    """What numpy.linalg returns inside Reaction.correct_atomic_balance, computed exactly: the molar coefficients per
    chemical after the solve (None when the method raises), and whether the system was consistent"""
    if info is None: info = {}
    st = [F(float(x)) for x in np.asarray(r._stoichiometry.to_array(), float).reshape(-1)]
    P = max(1, len(r._phases))
    if r._basis == 'wt': st = [x / MW[k % N] for k, x in enumerate(st)]
    by_mol = [sum(st[p * N + j] for p in range(P)) for j in range(N)]
    if constants: const = sorted({IDS.index(c) for c in constants})
    else: const = [flat_ridx(r, 0) % N]
    unknown = [j for j in range(N) if by_mol[j] != 0 and j not in const]
    rows = [a for a in range(3) if any(ATOMS[j][a] * by_mol[j] != 0 for j in range(N))]
    A = [[F(ATOMS[j][a]) for j in unknown] for a in rows]
    b = [-sum(F(ATOMS[c][a]) * by_mol[c] for c in const) for a in rows]
    M, K = len(rows), len(unknown)
    info['unknown'] = unknown
    if K == 0 or M == 0: return 'skip', False
    if M != K:
        if K > frank(A): return None, False
        AtA = [[sum(A[i][p] * A[i][q_] for i in range(M)) for q_ in range(K)] for p in range(K)]
        Atb = [sum(A[i][p] * b[i] for i in range(M)) for p in range(K)]
        x = fsolve(AtA, Atb)
    else:
        x = fsolve(A, b)
    if x is None: return None, False
    consistent = all(sum(A[i][p] * x[p] for p in range(K)) == b[i] for i in range(M))
    for j, v in zip(unknown, x): by_mol[j] = v
    info['x'] = list(x)
    return by_mol, consistent

def apply_history(case, sets, log):
    """sets: list of (object, [flat member numbers]) in member order.  Every step obtains its handle afresh from the set
    (indexing / slicing), operates on copies only, and appends what it returns to `derived`."""
    where = {}
    for obj, idx in sets:
        for i, m in enumerate(idx):
            where[m] = (obj, i, idx[0])
    n = len(where)
    derived = []
    src_balanced = [bool(r['balanced']) for r in case['rxns']]
    balanced = []                   # per derived reaction: obtained from atomically balanced reactions by balance-preserving steps
    log['setcopies'] = []
    for op in case.get('history', []):
        name = op[0]
        if name in ('setbasis', 'copy', 'backwards', 'iadd', 'isub', 'cab') and not derived:
            op = ['itemcopy', op[1], 0, None]; name = 'itemcopy'
        try:
            if name == 'itemcopy':
                m = op[1] % n; obj, i, off = where[m]
                if isinstance(obj, env()['tmo'].Reaction):
                    res = ['itemcopy', m, 0, op[3]]; handle = obj
                else:
                    lo = op[2] % (i + 1)
                    res = ['itemcopy', off + lo, i - lo, op[3]]
                    handle = obj[lo:][i - lo] if lo else obj[i]
                log['ops'].append(res)
                new = handle.copy(op[3])
                if new._stoichiometry is handle._stoichiometry: log['alias'] = True
                derived.append(new); balanced.append(src_balanced[m])
            elif name == 'itembackwards':
                m = op[1] % n; obj, i, off = where[m]
                handle = obj if isinstance(obj, env()['tmo'].Reaction) else obj[i]
                log['ops'].append(['itembackwards', m, None if op[2] is None else resolve_reactant(handle, op[2]), op[3]])
                new = handle.backwards(reactant=op[2], X=op[3])
                if new._stoichiometry is handle._stoichiometry: log['alias'] = True
                derived.append(new); balanced.append(src_balanced[m])
            elif name == 'setbasis':
                j = op[1] % len(derived)
                log['ops'].append(['setbasis', j, op[2]])
                derived[j].basis = op[2]
            elif name == 'copy':
                j = op[1] % len(derived)
                log['ops'].append(['copy', j, op[2]])
                derived.append(derived[j].copy(op[2])); balanced.append(balanced[j])
            elif name == 'backwards':
                j = op[1] % len(derived)
                log['ops'].append(['backwards', j, None if op[2] is None else resolve_reactant(derived[j], op[2]), op[3]])
                derived.append(derived[j].backwards(reactant=op[2], X=op[3]))
                balanced.append(balanced[j])
            elif name in ('iadd', 'isub'):
                j, k = op[1] % len(derived), op[2] % len(derived)
                if name == 'isub' and derived[j]._basis != derived[k]._basis and derived[j].X == derived[k].X:
                    name = 'iadd'   # X - X = 0 with coefficients converted between bases: 0/0 or x/0 depending on rounding
                log['ops'].append([name, j, k])
                a = derived[j]
                if name == 'iadd': a += derived[k]
                else: a -= derived[k]
                assert a is derived[j]
                balanced[j] = balanced[j] and balanced[k]
            elif name == 'cab':
                j = op[1] % len(derived)
                d = derived[j]
                part = sorted({k % N for k, x in enumerate(np.asarray(d._stoichiometry.to_array(), float).reshape(-1)) if x})
                consts = None if op[2] is None or not part else sorted({IDS[part[c % len(part)]] for c in op[2]})
                if consts is not None and len(consts) >= len(part): consts = consts[:-1] or None
                info = {}
                sol, consistent = cab_solution(d, consts, info)
                if sol == 'skip' or (sol is not None and sol[flat_ridx(d, 0) % N] == 0):
                    log['ops'].append(['copy', j, None]); derived.append(d.copy()); balanced.append(balanced[j])
                else:
                    # the arguments numpy.linalg actually receives are recorded (the solve itself is the oracle; its answer
                    # handed to the model is the exact rational solution of the exact system)
                    rec = ['cab', j, None if consts is None else [IDS.index(c) for c in consts], [], [],
                           None if sol is None else [fr_json(x) for x in info['x']]]
                    log['ops'].append(rec)
                    balanced[j] = bool(consistent)
                    o_solve, o_lstsq = np.linalg.solve, np.linalg.lstsq
                    def note(A_, b_):
                        rec[3] = [[fr_json(frac(v)) for v in row] for row in np.asarray(A_, float).tolist()]
                        rec[4] = [fr_json(frac(v)) for v in np.asarray(b_, float).reshape(-1)]
                    def w_solve(A_, b_, *a, **k): note(A_, b_); return o_solve(A_, b_, *a, **k)
                    def w_lstsq(A_, b_, *a, **k): note(A_, b_); return o_lstsq(A_, b_, *a, **k)
                    np.linalg.solve, np.linalg.lstsq = w_solve, w_lstsq
                    try: d.correct_atomic_balance(consts)
                    finally: np.linalg.solve, np.linalg.lstsq = o_solve, o_lstsq
            elif name == 'setcopy':
                gs = [(obj, idx) for obj, idx in sets if not isinstance(obj, env()['tmo'].Reaction)]
                if not gs:
                    m = op[1] % n; obj, i, off = where[m]
                    log['ops'].append(['itemcopy', m, 0, op[2]]); derived.append(obj.copy(op[2])); balanced.append(src_balanced[m])
                else:
                    obj, idx = gs[op[1] % len(gs)]
                    log['ops'].append(['setcopy', idx[0], len(idx), op[2]])
                    cp = obj.copy(op[2])
                    log['setcopies'].append({'lo': idx[0], 'n': len(idx), 'basis': op[2], 'rows': [snap(cp[i]) for i in range(len(idx))],
                                             'new': all(cp._stoichiometry[i] is not obj._stoichiometry[i] for i in range(len(idx)))})
            else:
                raise ValueError(name)
            log['oks'].append(True)
        except Exception as ex:
            log['oks'].append(False)
            log.setdefault('errors', []).append(type(ex).__name__)
    log['derived'] = [snap(d) for d in derived]
    log['balanced'] = balanced[:len(derived)]
    log['derived_objs'] = derived

def build_obj(case, log=None):
    tmo = env()['tmo']
    if log is None: log = {}
    log.update(ops=[], oks=[], derived=[], setcopies=[], balanced=[], use=None)
    rs = [build_rxn(case, s) for s in case['rxns']]
    k = case['kind']
    if k == 'single':
        obj = rs[0]; sets = [(obj, [0])]
    elif k in ('parallel', 'series'):
        obj = tmo.ParallelReaction(rs) if k == 'parallel' else tmo.SeriesReaction(rs)
        sets = [(obj, list(range(len(rs))))]
    elif case.get('tree'):
        leaves = {}
        def build(t, path):
            if t[0] == 'set':
                sub = [rs[i] for i in t[2]]
                o_ = sub[0] if t[1] == 'single' else (tmo.ParallelReaction(sub) if t[1] == 'parallel' else tmo.SeriesReaction(sub))
                leaves[tuple(path)] = o_
                return o_
            return tmo.ReactionSystem(*[build(c, path + [i]) for i, c in enumerate(t[1])])
        obj = build(case['tree'], [])
        sets = []
        if case.get('post_rebase_path') is not None:
            leaves[tuple(case['post_rebase_path'])].basis = case['post_rebase'][1]
    else:
        parts, sets = [], []
        for pk, idx in case['parts']:
            sub = [rs[i] for i in idx]
            parts.append(sub[0] if pk == 'single' else (tmo.ParallelReaction(sub) if pk == 'parallel' else tmo.SeriesReaction(sub)))
            sets.append((parts[-1], idx))
        obj = tmo.ReactionSystem(*parts)
        if case.get('post_rebase'):
            i, b = case['post_rebase']
            parts[i].basis = b
    if case.get('history'):
        apply_history(case, sets, log)
    if case['material']['kind'] == 'retarget':
        obj.reset_chemicals(env()['thermo'][case['material']['pkg']].chemicals)
    if case.get('use_derived') is not None and log.get('derived_objs'):
        log['use'] = case['use_derived'] % len(log['derived_objs'])
        return log['derived_objs'][log['use']]
    return obj

def make_material(case, flows=None):
    """returns (object passed to the reaction, reader of the flows afterwards)"""
    e = env(); tmo = e['tmo']
    from thermosteam.base import SparseVector, SparseArray
    m = case['material']; kind = m['kind']; ph = case['phases']
    flows = np.array(m['flows'] if flows is None else flows, float)
    def stream(pkg, phases):
        th = e['thermo'][pkg]
        n = th.chemicals.size
        if phases:
            s = tmo.MultiStream(None, phases=phases, thermo=th)
            s.imol.data[:] = flows.reshape(len(phases), n)
        else:
            s = tmo.Stream(None, thermo=th)
            s.imol.data[:] = flows
        return s, (lambda: np.asarray(s.imol.data.to_array(), float).reshape(-1))
    if m.get('pre_views'):
        inner = stream
        def stream(pkg, phases):
            st_, rd = inner(pkg, phases)
            st_.imass.data; st_.F_mass; st_.ivol.data     # the views now exist and are cached on the stream
            return st_, rd
    if kind == 'stream': return stream('A', ph)
    if kind == 'retarget':
        if m['sub'] == 'stream': return stream(m['pkg'], ph)
        a = flows.reshape(len(ph), -1) if ph else flows
        return a, (lambda: a.reshape(-1))
    if kind == 'other': return stream(m['pkg'], ph)
    if kind == 'badphases': return stream('A', m['stream_phases'])
    if kind == 'multinophase': return stream('A', ['g', 'l', 's'][:m['P']])
    if kind == 'massview':
        s, rd = stream('A', ph)
        return s.imass.data, rd
    if kind in ('numpy', 'numpylen'):
        a = flows.reshape(len(ph), -1) if ph else flows
        return a, (lambda: a.reshape(-1))
    if kind == 'numpybaddim':
        a = flows if ph else flows.reshape(2, -1)
        return a, (lambda: a.reshape(-1))
    if kind == 'sparse':
        a = SparseArray(flows.reshape(len(ph), -1)) if ph else SparseVector(flows)
        return a, (lambda: np.asarray(a.to_array(), float).reshape(-1))
    raise ValueError(kind)

def run_impl(case):
    env()
    out = {'ctor_err': None, 'err': None, 'data': []}
    log = {}
    try:
        obj = build_obj(case, log)
    except Exception as ex:
        out['ctor_err'] = errname(ex); out['ctor_cls'] = type(ex).__name__
        return out
    out['hist'] = {k: v for k, v in log.items() if k != 'derived_objs'}
    mat, read = make_material(case)
    entry = case.get('entry', 'call')
    try:
        if entry == 'force':
            ret = obj.force_reaction(mat)
        elif entry == 'conversion':
            ret = None
            if case['kind'] == 'single': cv = obj.conversion(mat)
            else: cv = obj._conversion(mat)
            out['conv'] = [fr_json(frac(x)) for x in np.asarray(cv.to_array() if hasattr(cv, 'to_array') else cv, float).reshape(-1)]
        else:
            ret = obj(mat)
        assert ret is None
    except Exception as ex:
        out['err'] = errname(ex); out['err_cls'] = type(ex).__name__
    if not (out['err'] and case['material']['kind'] == 'other'):
        out['data'] = [fr_json(frac(x)) for x in read()]
    if case['material']['kind'] == 'other' and entry == 'call':
        # everything the stream holds afterwards, exception or not
        im = mat._imol
        out['full'] = [fr_json(frac(x)) for x in np.asarray(im.data.to_array(), float).reshape(-1)]
        out['lay'] = im._chemicals is env()['thermo']['A'].chemicals
    return out

# ------------------------------------------------------------------ model side
def cerr(e):
    return 'None' if e is None else f'(Some {e})'

def pkg_tables(pkg, P):
    """flattened CAS index tables between package pkg (stream) and A (reaction)"""
    ids = PKG[pkg]
    nB = len(ids)
    fwd = [(p * N + IDS.index(i)) if i in IDS else None for p in range(P) for i in ids]
    bwd = [(p * nB + ids.index(i)) if i in ids else None for p in range(P) for i in IDS]
    return fwd, bwd

def crxn(case, spec):
    ph = case['phases']; P = max(1, len(ph))
    def idx(i): return IDS.index(i) if i in IDS else N + 1
    def row(p):
        if not ph: return 0
        r = phase_row(ph, p)
        return P + 1 if r is None else r
    terms = clist([f'({cnat(row(p))}, {cnat(idx(i))}, {q(c)})' for p, i, c in spec['terms']])
    t = (f'(mk_reaction {cbool(spec["form"] == "str")} {cnat(N)} {cnat(P)} {terms} '
         f'{copt(None if spec["reactant"] is None else idx(spec["reactant"]), cnat)} {q(spec["X"])} '
         f'{cbool(spec["basis"] == "wt")} {clist([PH[p] for p in ph], cnat)})')
    if spec['rebase']:
        t = f'(rebase {mws_term(case)} {t} {cbool(spec["rebase"] == "wt")})'
    return t

def mws_term(case):
    P = max(1, len(case['phases']))
    if case['material']['kind'] == 'multinophase': P = case['material']['P']
    return qlist(MW * P)

def call_mws_term(case):
    """molecular weights in the layout of the data the call works on"""
    m = case['material']
    if m['kind'] == 'retarget':
        return qlist([MWX[i] for i in PKG[m['pkg']]] * max(1, len(case['phases'])))
    return mws_term(case)

KIND = {'single': 'KSingle', 'parallel': 'KParallel', 'series': 'KSeries'}
def cobj(case):
    rs = [crxn(case, s) for s in case['rxns']]
    if case['kind'] != 'system':
        return f'(mk_simple (mk_set {KIND[case["kind"]]} {clist(rs)}))'
    parts = [f'(mk_set {KIND[k]} {clist([rs[i] for i in idx])})' for k, idx in case['parts']]
    t = f'(mk_system {clist(parts)})'
    if case.get('post_rebase'):
        i, b = case['post_rebase']
        t = f'(rebase_part {mws_term(case)} {t} {cnat(i)} {cbool(b == "wt")})'
    return t

def crun(case):
    m = case['material']; kind = m['kind']; ph = case['phases']; P = max(1, len(ph))
    v = qlist(m['flows']); mws = call_mws_term(case); pt = cbool(bool(ph))
    if kind == 'retarget':
        return f'(fun o => call {pt} {mws} o ({"MStream" if m["sub"] == "stream" else "MNumpy"} {v}))'
    if kind == 'multinophase':
        return (f'(fun o => match o with Simple _ (Single r) => call_multi_nophase {mws} r {cnat(m["P"])} {v} '
                f'| _ => (Some EOther, []) end)')
    if kind == 'stream': mat = f'(MStream {v})'
    elif kind == 'other':
        fwd, bwd = pkg_tables(m['pkg'], P)
        mat = f'(MOther {cnat(P * N)} {clist(fwd, lambda x: copt(x, cnat))} {clist(bwd, lambda x: copt(x, cnat))} {v})'
    elif kind == 'badphases': mat = f'(MBadPhases {v})'
    elif kind in ('numpy', 'numpylen'): mat = f'(MNumpy {v})'
    elif kind == 'numpybaddim': mat = f'(MNumpyBadDim {v})'
    elif kind == 'sparse': mat = f'(MSparse {v})'
    elif kind == 'massview': mat = f'(MMassView {v})'
    else: raise ValueError(kind)
    return f'(fun o => call {pt} {mws} o {mat})'

def csnap(x):
    return (f'(mkrxn {qlist([F(v) for v in x["st"]])} {cnat(x["ridx"])} {q(F(x["X"]))} {cbool(x["wt"])} '
            f'{clist(x["phases"], cnat)})')

def chop(o):
    n = o[0]
    cb = lambda b: copt(None if b is None else cbool(b == 'wt'))
    if n == 'itemcopy': return f'(HItemCopy {cnat(o[1])} {cnat(o[2])} {cb(o[3])})'
    if n == 'itembackwards': return f'(HItemBackwards {cnat(o[1])} {copt(o[2], cnat)} {copt(o[3], q)})'
    if n == 'setbasis': return f'(HSetBasis {cnat(o[1])} {cbool(o[2] == "wt")})'
    if n == 'copy': return f'(HCopy {cnat(o[1])} {cb(o[2])})'
    if n == 'backwards': return f'(HBackwards {cnat(o[1])} {copt(o[2], cnat)} {copt(o[3], q)})'
    if n == 'iadd': return f'(HIAdd {cnat(o[1])} {cnat(o[2])})'
    if n == 'isub': return f'(HISub {cnat(o[1])} {cnat(o[2])})'
    if n == 'cab':
        fl = lambda v: qlist([F(x) for x in v])
        formula = clist([qlist([F(float(x)) for x in row]) for row in env()['formula'].tolist()])
        return (f'(HCab {cnat(o[1])} {cnat(N)} {formula} {copt(None if o[2] is None else clist(o[2], cnat))} '
                f'{clist([fl(r) for r in o[3]])} {fl(o[4])} {copt(None if o[5] is None else fl(o[5]))})')
    if n == 'setcopy': return f'(HSetCopy {cnat(o[1])} {cnat(o[2])} {cb(o[3])})'
    raise ValueError(n)

def cobj_final(case):
    """the object after Reaction / ReactionSet.reset_chemicals, when the case moves it to another package"""
    m = case['material']
    if m['kind'] != 'retarget': return cobj(case)
    P = max(1, len(case['phases'])); ids = PKG[m['pkg']]; nB = len(ids)
    tbl = [(p * nB + ids.index(i)) if i in ids else None for p in range(P) for i in IDS]
    return f'(retarget_obj {cnat(P * nB)} {clist(tbl, lambda x: copt(x, cnat))} {cobj(case)})'

def ctree(case, t):
    rs = [crxn(case, s_) for s_ in case['rxns']]
    def go(t):
        if t[0] == 'set': return f'(mk_nset (mk_set {KIND[t[1]]} {clist([rs[i] for i in t[2]])}))'
        return f'(mk_nsys {clist([go(c) for c in t[1]])})'
    term = go(t)
    if case.get('post_rebase_path') is not None:
        term = (f'(do t_ <- {term}; nrebase {mws_term(case)} t_ {clist(case["post_rebase_path"], cnat)} '
                f'{cbool(case["post_rebase"][1] == "wt")})')
    return term

def coq_case(case, out):
    d = qlist([F(x) for x in out['data']])
    other = cbool(case["material"]["kind"] == "other")
    entry = case.get('entry', 'call')
    if case.get('tree'):
        m = case['material']; v = qlist(m['flows']); mws = mws_term(case)
        if m['kind'] == 'stream': run = f'(fun t_ => ncall_stream {mws} t_ {v})'
        elif m['kind'] == 'numpy':
            run = f'(fun t_ => let (e_, v_) := nprocess t_ {v} in match e_ with None => (None, v_) | Some x_ => (Some x_, {v}) end)'
        else: run = f'(fun t_ => nprocess t_ {v})'
        return f'(ncase_eqb {ctree(case, case["tree"])} {run} {cerr(out["ctor_err"])} {cerr(out["err"])} {d})'
    if entry == 'force':
        return (f'(case_eqb {other} {cobj(case)} (fun o => force_call {cbool(force_legacy())} {call_mws_term(case)} o {cmat(case)}) '
                f'{cerr(out["ctor_err"])} {cerr(out["err"])} {d})')
    if entry == 'conversion':
        cv = qlist([F(x) for x in out.get('conv', [])])
        return (f'(match {cobj(case)} with Err x_ => oerr_eqb (Some x_) {cerr(out["ctor_err"])} '
                f'| Ok o_ => oerr_eqb None {cerr(out["ctor_err"])} && '
                f'conv_eqb (conversion_call {call_mws_term(case)} o_ {cmat(case)}) {cerr(out["err"])} {cv} {d} end)')
    if case['material']['kind'] == 'other' and 'full' in out:
        m = case['material']; P = max(1, len(case['phases']))
        fwd, bwd = pkg_tables(m['pkg'], P)
        full = (f'(match {cobj(case)} with Err _ => true | Ok o_ => full_eqb (call_other_full {call_mws_term(case)} o_ {cnat(P * N)} '
                f'{clist(fwd, lambda x: copt(x, cnat))} {clist(bwd, lambda x: copt(x, cnat))} {qlist(m["flows"])}) '
                f'{cerr(out["err"])} {qlist([F(x) for x in out["full"]])} {cbool(out["lay"])} end)')
        return f'({coq_case_main(case, out)} && {full})'
    return coq_case_main(case, out)

def cmat(case):
    m = case['material']; kind = m['kind']; P = max(1, len(case['phases'])); v = qlist(m['flows'])
    if kind == 'stream': return f'(MStream {v})'
    if kind == 'other':
        fwd, bwd = pkg_tables(m['pkg'], P)
        return f'(MOther {cnat(P * N)} {clist(fwd, lambda x: copt(x, cnat))} {clist(bwd, lambda x: copt(x, cnat))} {v})'
    if kind == 'numpy': return f'(MNumpy {v})'
    if kind == 'sparse': return f'(MSparse {v})'
    if kind == 'massview': return f'(MMassView {v})'
    raise ValueError(kind)

def coq_case_main(case, out):
    d = qlist([F(x) for x in out['data']])
    other = cbool(case["material"]["kind"] == "other")
    if case.get('history'):
        h = out.get('hist', {'ops': [], 'oks': [], 'derived': [], 'setcopies': [], 'use': None})
        t = (f'(hist_case_eqb {other} {mws_term(case)} {cobj(case)} {clist([chop(o) for o in h["ops"]])} '
             f'{clist(h["oks"], cbool)} {clist([csnap(x) for x in h["derived"]])} {copt(h.get("use"), cnat)} {crun(case)} '
             f'{cerr(out["ctor_err"])} {cerr(out["err"])} {d})')
        for sc in h.get('setcopies', []):
            cb = copt(None if sc['basis'] is None else cbool(sc['basis'] == 'wt'))
            t = (f'({t} && {cbool(sc["new"])} && match {cobj(case)} with Ok o_ => res_rows_eqb (setcopy_rows {mws_term(case)} '
                 f'(firstn {cnat(sc["n"])} (skipn {cnat(sc["lo"])} (flat_members o_))) {cb}) {clist([csnap(x) for x in sc["rows"]])} '
                 f'| Err _ => false end)')
        return t
    return (f'(case_eqb {other} {cobj_final(case)} {crun(case)} '
            f'{cerr(out["ctor_err"])} {cerr(out["err"])} {d})')

def coq_show(case, out):
    return f'(match {cobj(case)} with Ok o => (None, {crun(case)} o) | Err e => (Some e, (None, [])) end)'

def nontrivial(case, out):
    if out.get('ctor_err') or out.get('err'): return True
    return [F(x) for x in out['data']] != [F(x) for x in case['material']['flows']]

def classify(case, out):
    ks = ['kind:' + case['kind'], 'phases:' + (''.join(case['phases']) or 'none'), 'material:' + case['material']['kind'],
          'n_rxns:%d' % len(case['rxns'])]
    ks.append('basis:' + (case['rxns'][0]['rebase'] or case['rxns'][0]['basis']))
    for r in case['rxns']:
        ks.append('form:' + r['form'])
    for o, ok in zip(out.get('hist', {}).get('ops', []), out.get('hist', {}).get('oks', [])):
        ks.append(f'history:{o[0]}:{"ok" if ok else "raise"}')
    if out.get('ctor_err'): ks.append('ctor_error:' + out.get('ctor_cls', '?'))
    elif out.get('err'): ks.append('call_error:' + out.get('err_cls', '?'))
    else:
        ks.append('returned')
        if any(F(x) == 0 for x in out['data']) and case['material']['kind'] == 'stream': ks.append('has-zero-flow')
    return ks

# ------------------------------------------------------------------ direct oracle
def wellformed(case):
    """inputs for which the property promises a result (or InfeasibleRegion)"""
    m = case['material']
    if m['kind'] in ('badphases', 'numpybaddim', 'numpylen'): return False
    if any(x < 0 for x in m['flows']): return False
    return True

def reference(case):
    """Independent reference from the written coefficients: flows after the reaction(s) on the quantity the
    reaction acts on; returns (after, reactant_indices) or None when a constructor error is expected"""
    ph = case['phases']; P = max(1, len(ph))
    def vec(spec):
        v = [F(0)] * (P * N)
        seen = set()
        for p, i, c in spec['terms']:
            if i not in IDS or (ph and phase_row(ph, p) is None) or i in seen: return None
            seen.add(i)
            v[(phase_row(ph, p) if ph else 0) * N + IDS.index(i)] = F(c)
        if spec['reactant'] is None:
            neg = [k for k, x in enumerate(v) if x < 0]
            if len(neg) != 1: return None
            r = neg[0]
        else:
            j = IDS.index(spec['reactant'])
            rows = [p for p in range(P) if v[p * N + j] != 0]
            if not rows: return None
            r = rows[0] * N + j
        # convert to a molar stoichiometry per mole of reactant
        if spec['basis'] == 'wt':
            v = [x / MW[k % N] for k, x in enumerate(v)]
        v = [x / -v[r] for x in v]
        return v, r, F(spec['X'])
    rs = [vec(s) for s in case['rxns']]
    if any(r is None for r in rs): return None
    return rs

def apply_ref(case, rs, mol):
    """exact molar result of the object on molar flows (basis does not matter for streams)"""
    def single(m, r): v, k, X = r; e = m[k] * X; return [a + e * b for a, b in zip(m, v)]
    def par(m, rl):
        out = list(m)
        for v, k, X in rl:
            e = m[k] * X
            out = [a + e * b for a, b in zip(out, v)]
        return out
    def ser(m, rl):
        for r in rl: m = single(m, r)
        return m
    k = case['kind']
    if k == 'single': return single(mol, rs[0])
    if k == 'parallel': return par(mol, rs)
    if k == 'series': return ser(mol, rs)
    for pk, idx in case['parts']:
        sub = [rs[i] for i in idx]
        mol = single(mol, sub[0]) if pk == 'single' else (par(mol, sub) if pk == 'parallel' else ser(mol, sub))
    return mol

def close(a, b, tol=1e-9):
    return len(a) == len(b) and all(abs(x - y) <= tol * max(1, abs(x), abs(y)) for x, y in zip(a, b))

def oracle_derived(case):
    """the clauses for a reaction the library itself derived (copy, re-base, reverse, +=, -=, correct_atomic_balance):
    exactly X x feed of ITS reactant is consumed, the others follow ITS coefficients per unit of reactant; atoms and
    mass are conserved when it was derived from balanced reactions; both bases agree on a stream"""
    e = env()
    m = case['material']; kind = m['kind']; ph = case['phases']; P = max(1, len(ph))
    log = {}
    try:
        target = build_obj(case, log)
    except Exception as ex:
        return f'construct: well-formed reaction rejected with {type(ex).__name__}: {ex}'
    j = log['use']
    how = ' after ' + ', '.join(o[0] for o in log['ops'])
    basis = target._basis
    st = [F(float(x)) for x in np.asarray(target._stoichiometry.to_array(), float).reshape(-1)]
    r = flat_ridx(target, 0); X = F(float(target.X))
    feed = [F(x) for x in m['flows']]
    on_mass = kind == 'stream' and basis == 'wt'
    buf = [x * MW[k % N] for k, x in enumerate(feed)] if on_mass else feed
    if st[r] == 0: return None
    exp = [b + X * buf[r] * c / -st[r] for b, c in zip(buf, st)]
    neg = float(sum(x for x in exp if x < 0))
    exp = [x / MW[k % N] for k, x in enumerate(exp)] if on_mass else exp
    mat, read = make_material(case)
    try:
        target(mat)
    except Exception as ex:
        if type(ex).__name__ == 'InfeasibleRegion':
            if neg < -1e-13: return None
            return f'infeasible: derived reaction{how} raised InfeasibleRegion although X x feed x coefficients leaves no flow negative'
        return f'derived: well-formed call of the derived reaction{how} raised {type(ex).__name__}: {ex}'
    if neg < -1e-11: return f'infeasible: derived reaction{how} returned normally although flows of {neg} would be negative'
    got = [float(x) for x in read()]
    want = [max(float(x), 0.0) for x in exp]
    if not close(got, want):
        return (f'derived-consumed: reaction{how} (X={float(X)}, reactant coefficient {float(st[r])}) changed the reactant by '
                f'{got[r] - float(feed[r])}, X x feed = {float(X * feed[r])}; flows {got}, expected {want}')
    as_mass = kind in ('numpy', 'sparse') and basis == 'wt'
    if log['balanced'][j]:
        tomol = (lambda v: [x / MW[k % N] for k, x in enumerate(v)]) if as_mass else (lambda v: list(v))
        b = tomol([float(x) for x in feed]); a = tomol(got)
        A = e['formula']
        tb = [sum(b[p * N + c] for p in range(P)) for c in range(N)]; ta = [sum(a[p * N + c] for p in range(P)) for c in range(N)]
        scale = max(1.0, max(tb))
        if np.abs(A @ np.array(ta) - A @ np.array(tb)).max() > 1e-9 * scale * 8:
            return f'derived-atoms: reaction{how} of balanced reactions changed the element flows from {list(A @ np.array(tb))} to {list(A @ np.array(ta))}'
        if abs(np.dot(MW, ta) - np.dot(MW, tb)) > 1e-9 * scale * 64:
            return f'derived-mass: reaction{how} of balanced reactions changed the total mass from {np.dot(MW, tb)} to {np.dot(MW, ta)}'
    if kind == 'stream':
        other = 'wt' if basis == 'mol' else 'mol'
        try:
            t2 = target.copy(other); m2, r2 = make_material(case); t2(m2)
            if not close([float(x) for x in r2()], got):
                return f'derived-basis: reaction{how}: {basis} basis gives {got}, its {other} version gives {[float(x) for x in r2()]}'
        except Exception as ex:
            if type(ex).__name__ != 'InfeasibleRegion' or neg == 0:
                return f'derived-basis: reaction{how}: {basis} basis returned normally, its {other} version raised {type(ex).__name__}'
    return None

def _exact_after(case, rs, kind, basis):
    """exact flows the object leaves (no clean-up), on the quantity it acts on, plus that quantity before"""
    m = case['material']
    before = [F(x) for x in m['flows']]
    pkg = m.get('pkg') if kind == 'other' else None
    P = max(1, len(case['phases']))
    if pkg:
        ids = PKG[pkg]; molA = [F(0)] * (P * N)
        for p_ in range(P):
            for j, i in enumerate(ids):
                if i in IDS: molA[p_ * N + IDS.index(i)] = before[p_ * len(ids) + j]
                elif before[p_ * len(ids) + j]: return None, None
    else: molA = before
    if kind in ('numpy', 'sparse') and basis == 'wt':
        as_mol = [x / MW[k % N] for k, x in enumerate(molA)]
        return [x * MW[k % N] for k, x in enumerate(apply_ref(case, rs, as_mol))], molA
    if kind == 'massview' and basis == 'mol':
        mass = [x * MW[k % N] for k, x in enumerate(molA)]
        return [x / MW[k % N] for k, x in enumerate(apply_ref(case, rs, mass))], molA
    return apply_ref(case, rs, molA), molA

def oracle_force(case):
    """force_reaction: X x feed of the reactant is consumed, the others follow the coefficients (negative results are kept,
    or set to zero when negligible against the total flow), so atoms and mass are conserved"""
    m = case['material']; kind = m['kind']
    rs = reference(case)
    if rs is None: return None
    basis = case['rxns'][0]['rebase'] or case['rxns'][0]['basis']
    try: obj = build_obj(case, {})
    except Exception as ex: return f'construct: well-formed reaction rejected with {type(ex).__name__}: {ex}'
    expect, molA = _exact_after(case, rs, kind, basis)
    if expect is None: return None
    mat, read = make_material(case)
    try: obj.force_reaction(mat)
    except Exception as ex:
        if kind == 'other' and type(ex).__name__ in ('UndefinedChemicalAlias', 'UndefinedChemical'): return None
        return f'force: well-formed force_reaction raised {type(ex).__name__}: {ex}'
    got = [float(x) for x in read()]
    if kind == 'other':
        ids = PKG[m['pkg']]; gotA = [0.0] * N
        for j, i in enumerate(ids):
            if i in IDS: gotA[IDS.index(i)] = got[j]
        got = gotA
    on_mass = (kind in ('stream', 'other') and basis == 'wt') or kind == 'massview'
    total = sum(abs(float(x)) * (MW[k % N] if on_mass else 1) for k, x in enumerate(expect))
    bad = []; negligible = False
    for k, (g, x) in enumerate(zip(got, expect)):
        x = float(x)
        neg_small = x < 0 and total > 0 and x * (MW[k % N] if on_mass else 1) / total > -1e-15
        negligible = negligible or neg_small
        if abs(g - x) <= 1e-9 * max(1, abs(g), abs(x)) or (neg_small and g == 0): continue
        bad.append(k)
    if bad:
        k = bad[0]
        head = 'force-negligible-mask' if negligible else 'force'
        return (f'{head}: force_reaction left {got[k]} of chemical {IDS[k % N]} where X x feed x coefficients gives {float(expect[k])} '
                f'(total mass {sum(float(x) * MW[j % N] for j, x in enumerate(molA))} -> {sum(g * MW[j % N] for j, g in enumerate(got))} when flows are molar); '
                f'flows {got}')
    return None

def oracle_conversion(case):
    """conversion(material) returns X x feed x coefficients (the change) and leaves the material alone"""
    m = case['material']; kind = m['kind']
    rs = reference(case)
    if rs is None: return None
    if case['kind'] != 'single' and len({(s_['rebase'] or s_['basis']) for s_ in case['rxns']}) > 1: return None
    basis = case['rxns'][0]['rebase'] or case['rxns'][0]['basis']
    try: obj = build_obj(case, {})
    except Exception as ex: return f'construct: well-formed reaction rejected with {type(ex).__name__}: {ex}'
    mat, read = make_material(case)
    try: cv = obj.conversion(mat) if case['kind'] == 'single' else obj._conversion(mat)
    except Exception as ex:
        if case.get('post_rebase') and type(ex).__name__ == 'RuntimeError': return None
        return f'conversion: well-formed call raised {type(ex).__name__}: {ex}'
    if case.get('post_rebase'): return None
    after = [float(x) for x in read()]
    if after != [float(x) for x in m['flows']]: return f'conversion: the material changed: {after}'
    molA = [F(x) for x in m['flows']]
    on_mass = (kind == 'stream' and basis == 'wt') or kind == 'massview'
    q0 = [x * MW[k % N] for k, x in enumerate(molA)] if on_mass else molA
    if (kind in ('numpy', 'sparse') and basis == 'wt') or (on_mass and basis == 'wt'):
        as_mol = [x / MW[k % N] for k, x in enumerate(q0)]
        q1 = [x * MW[k % N] for k, x in enumerate(apply_ref(case, rs, as_mol))]
    else:
        q1 = apply_ref(case, rs, q0)
    want = [float(a - b) for a, b in zip(q1, q0)]
    got = [float(x) for x in np.asarray(cv.to_array() if hasattr(cv, 'to_array') else cv, float).reshape(-1)]
    scale = max([1.0] + [abs(float(x)) for x in q0])
    if len(got) != len(want) or any(abs(g - w_) > 1e-9 * scale for g, w_ in zip(got, want)):
        return f'conversion: returned {got}, X x feed x coefficients is {want}'
    return None

def oracle(case):
    e = env()
    m = case['material']; kind = m['kind']; ph = case['phases']; P = max(1, len(ph))
    if not wellformed(case): return None
    if case.get('entry') == 'force': return oracle_force(case)
    if case.get('entry') == 'conversion': return oracle_conversion(case)
    if case.get('use_derived') is not None and case.get('history'):
        probe = {}
        try: build_obj(case, probe)
        except Exception: probe = {}
        if probe.get('use') is not None: return oracle_derived(case)
    rs = reference(case)
    if rs is None: return None                      # a constructor error is the expected outcome
    if case['kind'] != 'single' and len({(s['rebase'] or s['basis']) for s in case['rxns']}) > 1: return None
    mixed = case.get('post_rebase')               # a member re-based after construction: RuntimeError is the documented outcome
    log = {}
    okind = kind
    pkg = m.get('pkg') if kind in ('other', 'retarget') else None
    try:
        obj = build_obj(case, log)
    except Exception as ex:
        if okind == 'retarget' and any(t[1] not in PKG[pkg] for s_ in case['rxns'] for t in s_['terms']):
            return None                             # the target package lacks a chemical of the reaction
        return f'construct: well-formed reaction rejected with {type(ex).__name__}: {ex}'
    if okind == 'retarget': kind = m['sub']         # from here on: an ordinary stream / array of the target package
    basis = case['rxns'][0]['rebase'] or case['rxns'][0]['basis']
    mat, read = make_material(case)
    before = [F(x) for x in m['flows']]
    # molar flows by chemical of the reaction's package
    if pkg:
        ids = PKG[pkg]; nB = len(ids)
        molA = [F(0)] * (P * N)
        foreign = False
        for p in range(P):
            for j, i in enumerate(ids):
                x = before[p * nB + j]
                if i in IDS: molA[p * N + IDS.index(i)] = x
                elif x: foreign = True
        if foreign and okind == 'other': return None   # the stream holds a chemical the reaction's package lacks
    elif kind == 'multinophase':
        PP = m['P']
        molA = before
    else:
        molA = before
    acts_on_mass = (kind in ('stream', 'other', 'multinophase') and basis == 'wt') or kind == 'massview'
    # quantity the reaction acts on, per mole-stoichiometry: streams always end up the same in moles
    if kind == 'multinophase':
        tot = [sum(molA[p * N + j] for p in range(PP)) for j in range(N)]
        expect_tot = apply_ref(case, rs, tot)
    if kind in ('numpy', 'sparse') and basis == 'wt':
        # array elements are reacted as they are: treat them as masses
        as_mol = [x / MW[k % N] for k, x in enumerate(molA)]
        expect = [x * MW[k % N] for k, x in enumerate(apply_ref(case, rs, as_mol))]
    elif kind == 'massview' and basis == 'mol':
        # the mass values are reacted with the molar stoichiometry
        mass = [x * MW[k % N] for k, x in enumerate(molA)]
        expect = [x / MW[k % N] for k, x in enumerate(apply_ref(case, rs, mass))]
    elif kind != 'multinophase':
        expect = apply_ref(case, rs, molA)
    try:
        obj(mat)
        err = None
    except Exception as ex:
        err = ex
    if kind == 'multinophase':
        if err is not None and type(err).__name__ == 'InfeasibleRegion' and min(expect_tot) < 0: return None
        if err is not None:
            return f'multistream: phase-less reaction on a MultiStream raised {type(err).__name__}: {err}'
        after = [F(float(x)) for x in read()]
        tot_after = [sum(after[p * N + j] for p in range(PP)) for j in range(N)]
        if not close([float(x) for x in tot_after], [float(x) for x in expect_tot]):
            m0 = float(sum(x * MW[j] for j, x in enumerate(tot))); m1 = float(sum(x * MW[j] for j, x in enumerate(tot_after)))
            return (f'multistream: phase-less reaction on a MultiStream returned normally with total mass {m0} -> {m1} '
                    f'(per-chemical totals {[float(x) for x in tot_after]}, expected {[float(x) for x in expect_tot]})')
        return None
    neg = sum(float(x) * (MW[k % N] if acts_on_mass else 1) for k, x in enumerate(expect) if x < 0)
    if err is not None:
        name = type(err).__name__
        if mixed and name == 'RuntimeError': return None
        if name == 'InfeasibleRegion':
            if neg < -1e-13: return None
            return f'infeasible: InfeasibleRegion raised although no flow would become negative (sum of negatives {neg})'
        if okind == 'other' and name in ('UndefinedChemicalAlias', 'UndefinedChemical'):
            ids = PKG[m['pkg']]
            if any(x != 0 and IDS[k % N] not in ids for k, x in enumerate(expect)): return None
        return f'{kind}: well-formed call raised {name}: {err}'
    if neg < -1e-11:
        return f'infeasible: returned normally although flows of {neg} would be negative'
    got = [float(x) for x in read()]
    if min(got) < 0: return f'negative: normal return with a negative flow {min(got)}'
    if pkg:
        ids = PKG[pkg]; nB = len(ids)
        if okind == 'retarget' and any(got[k] != float(before[k]) for k in range(P * nB) if ids[k % nB] not in IDS):
            return f'retarget: a chemical outside the reaction changed: {got}'
        if len(got) != P * nB:
            return (f'other-package: stream on package {m["pkg"]} ({nB} chemicals) holds data of shape {len(got) // P} per phase '
                    f'after the reaction (expected flows by name: '
                    f'{ {IDS[k % N] + ("," + ph[k // N] if ph else ""): float(x) for k, x in enumerate(expect) if x} })')
        gotA = [0.0] * (P * N)
        for p in range(P):
            for j, i in enumerate(ids):
                if i in IDS: gotA[p * N + IDS.index(i)] = got[p * nB + j]
        got = gotA
    exp = [max(float(x), 0.0) for x in expect]
    if mixed and kind in ('numpy', 'sparse', 'numpylen'):
        exp = got            # no single basis to interpret the array in; conservation below still applies
    if mixed and not close(got, exp):
        return (f'mixed-basis: ReactionSystem (by {basis}) whose member {mixed[0]} was switched to {mixed[1]} neither raised nor '
                f'reacted correctly: flows {got}, expected {exp}')
    if not close(got, exp):
        if kind == 'sparse' and ph and close(got, [float(x) for x in molA]) and not close(exp, [float(x) for x in molA]):
            return 'sparse-array: bare SparseArray passed to a phase-tagged reaction is returned unreacted'
        hist = f" (after {', '.join(o[0] for o in log.get('ops', []))} on copies / the set's copy)" if log.get('ops') else ''
        return f'{kind}: flows after the reaction {got} differ from X*feed*stoichiometry {exp}{hist}'
    # conservation (balanced reactions only); quantities in moles
    if all(s['balanced'] for s in case['rxns']) and not (kind == 'massview' and basis == 'mol'):
        to_mol = (lambda v: [x / MW[k % N] for k, x in enumerate(v)]) if (kind in ('numpy', 'sparse') and basis == 'wt') else (lambda v: v)
        b = to_mol([float(x) for x in molA]); a = to_mol(got)
        A = e['formula']
        tb = [sum(b[p * N + j] for p in range(P)) for j in range(N)]
        ta = [sum(a[p * N + j] for p in range(P)) for j in range(N)]
        scale = max(1.0, max(tb))
        if np.abs(A @ np.array(ta) - A @ np.array(tb)).max() > 1e-9 * scale * 8:
            return f'atoms: element flows changed from {list(A @ np.array(tb))} to {list(A @ np.array(ta))}'
        if abs(np.dot(MW, ta) - np.dot(MW, tb)) > 1e-9 * scale * 64:
            return f'mass: total mass changed from {np.dot(MW, tb)} to {np.dot(MW, ta)}'
    # both bases give the same result on a stream
    if okind == 'stream' and not mixed:
        other = 'wt' if basis == 'mol' else 'mol'
        alt = dict(case, rxns=[dict(s, rebase=(None if s['basis'] == other else other)) for s in case['rxns']])
        try:
            o2 = build_obj(alt); m2, r2 = make_material(alt); o2(m2)
            if not close([float(x) for x in r2()], got):
                return f'basis: {basis} basis gives {got}, {other} basis gives {[float(x) for x in r2()]}'
        except Exception as ex:
            if type(ex).__name__ != 'InfeasibleRegion' or neg == 0:
                return f'basis: {basis} basis returned normally, {other} basis raised {type(ex).__name__}: {ex}'
    if log.get('alias'):
        return 'alias: the copy of a set member shares its stoichiometry array with the set'
    return None

def finding_key(case, msg):
    head = msg.split(':')[0]
    return {'multistream': 'C05:phaseless-reaction-on-multistream',
            'sparse-array': 'C05:bare-sparse-array-not-reacted',
            'other-package': 'C05:other-package-multistream-not-restored'}.get(
                head, 'C05:' + head + (':' + msg.split('with ')[1].split(':')[0] if head == 'construct' and 'with ' in msg else ''))

def mismatch_key(case, out):
    return f"{case['material']['kind']}{case['material'].get('sub', '')}/{'pt' if case['phases'] else 'pl'}/{case['kind']}/{out.get('ctor_err')}/{out.get('err')}"
