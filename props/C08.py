"""C08 — bubble and dew points.  Correspondence harness, generators and direct oracle.

Correspondence: BubblePoint / DewPoint objects of /repo are built over *stub* chemicals (user-defined
chemicals whose Psat handle is a quadratic with dyadic coefficients, plus Tb/Tc/Pc) and stub or ideal
Gamma / Phi / PCF classes; flexsolve (aitken_secant, IQ_interpolation, wegstein) is replaced, from this
process only, by small deterministic stand-ins that are mirrored in coq/C08/Model.v.  The real solvers and
real database chemicals are used by oracle()."""
import os, sys, itertools, contextlib, types
import numpy as np
from fractions import Fraction as F
from vf import q, qlist, clist, cbool, cnat, copt, frac, fr_json, TranslatorError, VERIF, REPO

# numba's on-disk cache next to /repo's sources is shared by every concurrently running check; for functions that take a
# dispatcher argument (dew_point.gamma_iter) a concurrently rewritten index makes numba raise
# "ReferenceError: underlying object has vanished".  Use a cache directory of this check's own (performance only).
os.environ.setdefault('NUMBA_CACHE_DIR', os.path.join(os.path.dirname(os.path.dirname(os.path.abspath(__file__))), '.cache', 'numba_C08'))

ID = 'C08'
COQ_DIR = 'C08'
COQ_HEADER = 'From V Require Import Common.Num C08.Model.\nOpen Scope Q_scope.'
RULE = ('seven case kinds; five over packages of 1-5 stub chemicals (quadratic dyadic Psat, Tb/Tc/Pc, Psat.Tmin/Tmax chosen so that the '
        '50 K / 1000 K limits of vle_domain are also hit) with ideal or polynomial stand-in Gamma/Phi/PCF classes: '
        '(kernel) one of the 8 residual kernels _T_error/_P_error/_T_error_ideal/_Py_ideal (bubble) and _T_error/_P_error/'
        '_T_error_ideal/_Px_ideal (dew) called on dyadic arguments incl. T<=0 / P<=0, value and written buffer compared; '
        '(solve) solve_Ty/solve_Py/solve_Tx/solve_Px and __call__ with flexsolve replaced by table / one-step-secant / echo / '
        'raising stand-ins: result or exception class, normalised output, the composition arguments handed to the solver '
        '(z pre-processing), N==0 / N==1 / N>=2 branches, negative and zero entries, unnormalised and trace compositions; '
        '(tsat) Chemical.Tsat branches; (cache) histories of constructor calls, object identity pattern and Tmin/Tmax/Pmin/Pmax '
        'of every returned instance; (history) 3-8 operations on ONE BubblePoint/DewPoint pair - calls that hand over 1-2 composition arrays owned by the caller '
        '(the array objects themselves) interleaved with in-place updates of those arrays, recurring T / P specifications, repeats, k*z - '
        'compared with run_hist of the model (results and final array contents; family aba = one solver asked for spec A, then other arrays / specs / in-place updates, then spec A again); cache histories use, besides the n chemical objects, n twin objects with the SAME IDs but other Psat correlations, and also switch the session default '
        'package (settings.set_thermo) and construct with and without the thermo argument, compared with run_session (identity pattern, '
        'domain and Gamma/Phi/PCF classes of every instance); (real) 30 (quick) / 150 (thorough) structured real-chemical cases per run with the real '
        'flexsolve - templates plain / immiscible (water with organics it is partially miscible with: several liquid roots) / heavy (low-volatility chemicals near the lower end of their correlations: dew pressures of a few Pa) / mixed-groups (chemicals without UNIFAC/Dortmund groups listed among chemicals with groups, random '
        'order) / edge (specification 0.25-25 K above the common lower end of the vapour-pressure correlations) over the ideal, Dortmund '
        'and UNIFAC packages - on which the direct oracle evaluates every clause plus the package contracts the theorems assume '
        '(Gamma/Phi/PCF pure, permuted with the chemical list, Gamma.f/args == Gamma(), repeat of the first calls unchanged, caller array re-used after an in-place update, array not written to, '
        'bounded fall-back path forced by making the open solver raise RuntimeError / step to a non-physical point (InfeasibleRegion from the residual) agrees with the regular path, '
        'same call right after solves on either side of the composition range identical, instance data == fresh build from its own chemical objects, a raising solver is a finding); '
        'plus two fixed real-chemical cases (Water/Ethanol, k*z and permuted list) evaluated with the direct oracle.  '
        'Values to 1e-9 relative, structure exactly.  non-trivial = the call returned values '
        '(not an exception) through the N>=2 path or a history with at least one cache hit; distinct = distinct case hash')
ASSUMPTIONS = [
    'root-finder contract (Section hypotheses secant_ok / iq_ok): when flexsolve.aitken_secant / IQ_interpolation return x, the last '
    'evaluation of the residual they were given was at x and its value was 0 (in floats: within ytol=5e-12 / xtol=1e-9); measured by oracle()',
    'fixed-point contract (weg_fix S k): flexsolve.wegstein returns a fixed point of the activity-coefficient map dew_point.solve_x hands it '
    '(used by the ideal-package theorems about the dew point only)',
    'package objects are mathematical functions (gam/phi/pcf/Psat of the model): Gamma/Phi/PCF keep no state between evaluations, '
    'Gamma.f(x, T, *Gamma.args) == Gamma(x, T), and listing the chemicals in another order permutes their values (perm_pkg); these '
    'are properties of activity_coefficients.py etc. (C16) that C08 relies on - measured on every run by oracle() on the real-chemical cases',
    'chemical data (Psat handle, Tb, Tc, Pc) do not change between constructor calls (cache_coherent)',
    'length z == number of chemicals of the object; P != 0 when solve_Ty/solve_Tx are called directly',
    'float rounding is not modelled: values compared to 1e-9 relative; inputs are dyadic so branch decisions are exact',
    'ordering theorems are for composition-independent K-values (gamma = phi = pcf = 1); with composition-dependent gamma the ordering '
    'is not a theorem (azeotropes) and is only measured on ideal packages']
TRUSTED = ['model coq/C08/Model.v is hand-written from bubble_point.py, dew_point.py, domain.py, functional.normalize/first_true_index and '
           'Chemical.Tsat; tie = this correspondence check plus tr/C08_kernels.py (ast translator of the residual kernels, compared with '
           'the hand model by reflexivity lemmas)',
           'dew_point.gamma_iter is run through its numba py_func in stubbed cases; the reactive (liquid_conversion/gas_conversion) paths, '
           'BubblePointBeta and the except-branch of dew_point.solve_x for 0/0 are not modelled',
           'stand-in solvers / property classes in props/C08.py mirror stub_secant/stub_iq/stub_weg/stub_gam/stub_phi/stub_pcf of Model.v']
CASE_TIMEOUT = 60

# ------------------------------------------------------------------ translator
def translate():
    import importlib.util
    spec = importlib.util.spec_from_file_location('C08_kernels', os.path.join(VERIF, 'tr', 'C08_kernels.py'))
    m = importlib.util.module_from_spec(spec)
    spec.loader.exec_module(m)
    return m.generate(REPO)

# ------------------------------------------------------------------ environment
_env = {}
POOL = ['A_', 'B_', 'C_', 'D_', 'E_', 'F_']
PARAM = {}      # chemical ID -> {'a':..,'c':..,'d':..} parameters read by the stub classes

class StubPsat:
    """Psat handle stand-in: quadratic with dyadic coefficients, with the Tmin/Tmax attributes vle_domain and Tsat read."""
    def __init__(s, c0, c1, c2, Tmin, Tmax):
        s.c0 = c0; s.c1 = c1; s.c2 = c2; s.Tmin = Tmin; s.Tmax = Tmax
    def __call__(s, T):
        return s.c0 + s.c1 * T + s.c2 * T * T
    def __bool__(s):
        return True

def stub_gamma_f(x, T, a):
    return 1 + a * (1 - x) * (1 - x) * 256 / T

def env():
    if _env:
        return _env
    import thermosteam as tmo
    from thermosteam import equilibrium as eq
    from thermosteam.equilibrium import bubble_point as bpm, dew_point as dpm
    from thermosteam import _chemical as chm
    from thermosteam.equilibrium.activity_coefficients import ActivityCoefficients
    from thermosteam.equilibrium.fugacity_coefficients import FugacityCoefficients
    from thermosteam.equilibrium.poyinting_correction_factors import PoyintingCorrectionFactors

    class StubGamma(ActivityCoefficients):
        __slots__ = ('a',)
        def __init__(self, chemicals):
            self._chemicals = tuple(chemicals)
            self.a = np.array([PARAM[c.ID]['a'] for c in chemicals], float)
        def __call__(self, x, T):
            return stub_gamma_f(x, T, self.a)
        @property
        def f(self): return stub_gamma_f
        @property
        def args(self): return (self.a,)

    class StubPhi(FugacityCoefficients):
        __slots__ = ('c', 'chemicals')
        def __init__(self, chemicals):
            self.chemicals = tuple(chemicals)
            self.c = np.array([PARAM[c.ID]['c'] for c in chemicals], float)
        def __call__(self, y, T, P):
            return 1 + self.c * y * P / 1048576

    class StubPCF(PoyintingCorrectionFactors):
        __slots__ = ('d', '_chemicals')
        def __init__(self, chemicals):
            self.chemicals = chemicals
            self.d = np.array([PARAM[c.ID]['d'] for c in chemicals], float)
        def __call__(self, T, P, Psats=None):
            return 1 + self.d * (P - Psats) / 4194304

    pool = [tmo.Chemical(n, search_db=False, MW=16., Hf=0., Cn=64., phase='l', default=True) for n in POOL]
    # other Chemical objects with the same IDs (a chemical created again, e.g. with a re-fitted vapour-pressure correlation)
    pool2 = [tmo.Chemical(n, search_db=False, MW=16., Hf=0., Cn=64., phase='l', default=True) for n in POOL]
    chems = tmo.Chemicals(pool)
    tmo.settings.set_thermo(chems)
    thermos = {}
    for g, ph, pc in itertools.product('is', 'is', 'is'):
        thermos[g + ph + pc] = tmo.Thermo(
            tmo.settings.chemicals,
            Gamma=eq.IdealActivityCoefficients if g == 'i' else StubGamma,
            Phi=eq.IdealFugacityCoefficients if ph == 'i' else StubPhi,
            PCF=eq.MockPoyintingCorrectionFactors if pc == 'i' else StubPCF)
    _env.update(tmo=tmo, eq=eq, bpm=bpm, dpm=dpm, chm=chm, pool={c.ID: c for c in pool}, pool2={c.ID: c for c in pool2}, thermos=thermos,
                real_flx=bpm.flx, real_gamma_iter=dpm.gamma_iter,
                real_iq=chm.IQ_interpolation, real_as=chm.aitken_secant,
                InfeasibleRegion=tmo.exceptions.InfeasibleRegion)
    return _env

# ------------------------------------------------------------------ stand-in solvers (mirror Model.v)
class Shim:
    """Replaces the module attribute `flx` of bubble_point / dew_point (and the two names imported by _chemical)."""
    def __init__(self, ks, ki, nweg):
        self.ks, self.ki, self.nweg = ks, ki, nweg
        self.trace = []

    def _rec(self, name, x0, x1, args):
        arrs = [np.array(a, float).tolist() for a in args[:-1] if isinstance(a, np.ndarray)] if args else []
        self.trace.append({'solver': name, 'x0': float(x0), 'x1': float(x1), 'arrays': arrs})

    def aitken_secant(self, f, x0, x1=None, xtol=0., ytol=5e-8, args=(), **kw):
        self._rec('secant', x0, x1, args)
        k = self.ks
        if k[0] == 'table':
            f(k[2], *args)
            return k[1]
        if k[0] == 'newton':
            v0 = f(x0, *args)
            v1 = f(x0 + 16, *args)
            if v1 == v0:
                return x0
            x = x0 - v0 * 16 / (v1 - v0)
            f(x, *args)
            return x
        if k[0] == 'echo':
            v = f(x0 + 4, *args)
            return x0 + (x1 - x0) * 1024 + v * 64
        raise RuntimeError('stand-in solver: no convergence')

    def IQ_interpolation(self, f, x0, x1, y0=None, y1=None, x=None, xtol=0., ytol=5e-8, args=(), **kw):
        self._rec('iq', x0, x1, args)
        k = self.ki
        if k[0] == 'table':
            f(k[2], *args)
            return k[1]
        if k[0] == 'newton':
            if y1 == y0:
                return x0
            r = x0 - y0 * (x1 - x0) / (y1 - y0)
            f(r, *args)
            return r
        if k[0] == 'echo':
            m = (x0 + x1) / 2
            v = f(m, *args)
            return m + y0 * 8 + y1 * 16 + (x if x is not None else 0) + v * 64
        raise RuntimeError('stand-in solver: no convergence')

    def wegstein(self, f, x, xtol=5e-8, args=(), **kw):
        for _ in range(self.nweg):
            x = f(x, *args)
        return x

@contextlib.contextmanager
def stubbed(shim):
    e = env()
    bpm, dpm, chm = e['bpm'], e['dpm'], e['chm']
    bpm.flx = shim; dpm.flx = shim
    chm.IQ_interpolation = shim.IQ_interpolation; chm.aitken_secant = shim.aitken_secant
    gi = e['real_gamma_iter']
    dpm.gamma_iter = getattr(gi, 'py_func', gi)
    try:
        yield shim
    finally:
        bpm.flx = e['real_flx']; dpm.flx = e['real_flx']
        chm.IQ_interpolation = e['real_iq']; chm.aitken_secant = e['real_as']
        dpm.gamma_iter = gi

@contextlib.contextmanager
def py_gamma_iter():
    """real flexsolve, but dew_point.gamma_iter through its py_func (numba cannot type the stand-in Gamma.f)"""
    e = env()
    gi = e['real_gamma_iter']
    e['dpm'].gamma_iter = getattr(gi, 'py_func', gi)
    try:
        yield
    finally:
        e['dpm'].gamma_iter = gi

class _FailingOpenSolver:
    """flexsolve with aitken_secant failing the way it fails in practice, so that the wrappers enter their
    `except RuntimeError` fall-back (which then runs the real IQ_interpolation):
      'runtime'    - the solver itself raises RuntimeError (no convergence);
      'infeasible' - the solver steps to a non-physical point (T <= 0 / P <= 0): the RESIDUAL raises the library's own
                     InfeasibleRegion, which the fall-back has to catch as well."""
    def __init__(self, real, how):
        self._real = real
        self._how = how
    def __getattr__(self, name):
        return getattr(self._real, name)
    def aitken_secant(self, f, x0, x1=None, xtol=0., ytol=5e-8, args=(), **k):
        if self._how == 'infeasible':
            f(-1., *args)
        raise RuntimeError('open solver made to fail (error-path probe)')

@contextlib.contextmanager
def forced_fallback(how='runtime'):
    e = env()
    bpm, dpm = e['bpm'], e['dpm']
    old_b, old_d = bpm.flx, dpm.flx
    bpm.flx = dpm.flx = _FailingOpenSolver(e['real_flx'], how)
    try:
        yield
    finally:
        bpm.flx, dpm.flx = old_b, old_d

def install(pk, twins=None):
    """Re-parametrise the pooled stub chemicals for this case and return (chemical tuple, thermo)."""
    e = env()
    cs = []
    for name, c in zip(POOL, pk['chems']):
        ch = e['pool'][name]
        ch._Psat = StubPsat(c['c0'], c['c1'], c['c2'], c['Tlo'], c['Thi'])
        ch._Tb = c['Tb']; ch._Tc = c['Tc']; ch._Pc = c['Pc']
        PARAM[name] = {'a': c['a'], 'c': c['c'], 'd': c['d']}
        cs.append(ch)
    e['eq'].BubblePoint._cached.clear()
    e['eq'].DewPoint._cached.clear()
    if twins is not None:
        for name, c in zip(POOL, twins):
            ch = e['pool2'][name]
            ch._Psat = StubPsat(c['c0'], c['c1'], c['c2'], c['Tlo'], c['Thi'])
            ch._Tb = c['Tb']; ch._Tc = c['Tc']; ch._Pc = c['Pc']
            cs.append(ch)
    return tuple(cs), e['thermos'][pk['G'] + pk['Phi'] + pk['PCF']]

ERR = {'InfeasibleRegion': 'EInfeasible', 'ValueError': 'EValue', 'RuntimeError': 'ERuntime', 'FloatingPointError': 'EZeroDiv',
       'ZeroDivisionError': 'EZeroDiv', 'IndexError': 'EIndex', 'TypeError': 'EType'}

def guarded(fn):
    try:
        return ['ok', fn()]
    except Exception as ex:
        return ['err', ERR.get(type(ex).__name__, 'EOther'), type(ex).__name__]

def fl(xs):
    return [float(x) for x in np.asarray(xs, float).reshape(-1)]

# ------------------------------------------------------------------ generators
def dy(rng, choices):
    return float(rng.choice(choices))

def gen_chem(rng):
    T0 = rng.choice([64, 96, 128])
    b = rng.choice([64, 128, 192, 256, 384, 512])
    c2 = rng.choice([0, 0, F(1, 4), F(1, 2), 1])
    c0 = -b * T0 + c2 * T0 * T0
    c1 = b - 2 * c2 * T0
    return {'c0': float(c0), 'c1': float(c1), 'c2': float(c2),
            'Tlo': dy(rng, [180, 200, 220, 240, 40, 140]), 'Thi': dy(rng, [560, 600, 640, 700, 1100]),
            'Tb': rng.choice([None, None, 352., 384., 400.]), 'Tc': dy(rng, [512, 600, 640, 700]),
            'Pc': dy(rng, [4194304, 4194304, 65536, 2097152]),
            'a': dy(rng, [0, F(1, 4), F(1, 2), 1, 2]), 'c': dy(rng, [0, F(1, 4), F(1, 2), F(-1, 4), F(1, 8)]),
            'd': dy(rng, [0, F(1, 4), F(1, 2), F(-1, 4), 1])}

def gen_pkg(rng, n=None, ideal=None):
    n = n or rng.choice([1, 2, 2, 3, 3, 4, 5])
    if ideal is None:
        ideal = rng.random() < 0.35
    return {'chems': [gen_chem(rng) for _ in range(n)],
            'G': 'i' if ideal or rng.random() < 0.3 else 's',
            'Phi': 'i' if ideal or rng.random() < 0.5 else 's',
            'PCF': 'i' if ideal or rng.random() < 0.5 else 's'}

ZS = [0, 0, F(1, 4), F(1, 2), 1, 1, 2, 3, F(1, 8), F(1, 1024), 5, F(3, 4)]
TS = [256, 300, 320, 352, 384, 400, 448, 480, 520]
PS = [8192, 16384, 32768, 65536, 101325, 131072, 262144, 1048576]

def gen_z(rng, n, malformed=False):
    z = [dy(rng, ZS) for _ in range(n)]
    r = rng.random()
    if malformed and r < 0.5:
        z[rng.randrange(n)] = dy(rng, [-1, F(-1, 2), -2])
    elif r < 0.12:
        z = [0.] * n
        z[rng.randrange(n)] = dy(rng, [1, 2, F(1, 4), F(1, 1024)])
    elif r < 0.16:
        z = [0.] * n
    elif r < 0.3:                      # normalised, dyadic
        z = [dy(rng, [1, 2, 3, 4, 1, 0]) for _ in range(n)]
        s = sum(z)
        if s in (1, 2, 4, 8, 16):
            z = [x / s for x in z]
    return z

def gen_kind(rng, var, allow_raise=True):
    vals = TS if var == 'T' else PS
    r = rng.random()
    if r < 0.35:
        return ['newton']
    if r < 0.6:
        return ['echo']
    if r < 0.85 or not allow_raise:
        root = dy(rng, vals)
        last = root if rng.random() < 0.6 else dy(rng, vals)
        return ['table', root, last]
    return ['raise']

def gen_vec(rng, n, choices):
    return [dy(rng, choices) for _ in range(n)]

def gen_case(rng):
    r = rng.random()
    if r < 0.27:
        pk = gen_pkg(rng)
        n = len(pk['chems'])
        sub = rng.choice(['bT', 'bP', 'bTi', 'bPyi', 'dT', 'dP', 'dTi', 'dPxi'])
        # (the stand-in gamma divides by T and P-kernels do not test T, so T <= 0 goes to the T-kernels only)
        T = dy(rng, TS + [0, -16] if rng.random() < 0.15 and sub in ('bT', 'dT', 'bTi', 'dTi') else TS)
        P = dy(rng, PS + [0, -8192] if rng.random() < 0.15 and sub in ('bP', 'dP') else PS)
        small = [0, F(1, 4), F(1, 2), 1, F(1, 8), F(3, 4)]
        return {'kind': 'kernel', 'sub': sub, 'pkg': pk, 'T': T, 'P': P,
                'v1': gen_vec(rng, n, [1024, 4096, 512, 32768] if sub == 'bPyi' else
                              [0, 16384, 65536, 32768, 8192, 4096] if sub in ('dT', 'dTi') else small),
                'v2': gen_vec(rng, n, small), 'v3': gen_vec(rng, n, [4096, 16384, 65536, 32768]),
                'buf': gen_vec(rng, n, small + [0, 0]), 'nweg': rng.choice([0, 1, 1, 2])}
    if r < 0.70:
        pk = gen_pkg(rng)
        n = len(pk['chems'])
        which = rng.choice(['Ty', 'Py', 'Tx', 'Px'])
        via_call = rng.random() < 0.25
        z = gen_z(rng, n, malformed=rng.random() < 0.12)
        T = dy(rng, TS) if which[0] == 'P' else None
        P = dy(rng, PS + [8388608]) if which[0] == 'T' else None
        if P == 8388608 and pk['Phi'] == 's':
            P = 1048576.       # (the stand-in phi = 1 + c*y*P/2^20 must stay away from zero)
        c = {'kind': 'solve', 'which': which, 'pkg': pk, 'z': z, 'T': T, 'P': P, 'via_call': via_call,
             'ks': gen_kind(rng, which[0]), 'ki': gen_kind(rng, which[0], allow_raise=rng.random() < 0.3),
             'nweg': rng.choice([0, 1, 1, 2])}
        if via_call and rng.random() < 0.3:   # malformed argument combinations of __call__
            c['T'], c['P'] = rng.choice([(None, None), (300., 65536.), (0., 65536.), (300., 0.), (0., 0.), (0., None)])
        return c
    if r < 0.79:
        # history of calls on ONE BubblePoint / DewPoint pair; the caller owns 1-2 composition arrays, hands the array
        # objects themselves to the solvers and updates them in place between calls.  Two families:
        #  'aba'  - one solver: spec A for array 0, then (other arrays / other specs / in-place updates), then spec A for the
        #           restored array 0 again (anything the object keeps from one call of a method to its next call shows);
        #  'mix'  - random interleaving of the four solvers with recurring specifications, repeats and k*z
        pk = gen_pkg(rng, n=rng.choice([2, 2, 3]))
        n = len(pk['chems'])
        fam = rng.choice(['aba', 'aba', 'mix'])
        fixed = {'T': dy(rng, TS), 'P': dy(rng, PS)}       # specifications that recur, so that "same T, array updated" occurs
        if fam == 'aba':
            which = rng.choice(['Ty', 'Py', 'Tx', 'Px'])
            var = 'P' if which[0] == 'T' else 'T'
            vals = PS if var == 'P' else TS
            bufs = [gen_z(rng, n), gen_z(rng, n)]
            a0 = fixed[var]
            ops = [['call', which, 0, a0]]
            for _ in range(rng.randint(1, 3)):
                r2 = rng.random()
                if r2 < 0.4:
                    ops.append(['call', which, 1, a0 if rng.random() < 0.5 else dy(rng, vals)])
                elif r2 < 0.7:
                    ops.append(['set', 0, gen_z(rng, n)])
                    ops.append(['call', which, 0, a0 if rng.random() < 0.6 else dy(rng, vals)])
                else:
                    w2 = rng.choice(['Ty', 'Py', 'Tx', 'Px'])
                    ops.append(['call', w2, rng.randrange(2), fixed['P' if w2[0] == 'T' else 'T']])
            ops.append(['set', 0, list(bufs[0])])
            ops.append(['call', which, 0, a0])
        else:
            bufs = [gen_z(rng, n, malformed=rng.random() < 0.1) for _ in range(rng.choice([1, 1, 2]))]
            ops = []
            cur = [list(b) for b in bufs]
            for _ in range(rng.randint(3, 7)):
                if ops and rng.random() < 0.35:
                    i = rng.randrange(len(bufs))
                    r2 = rng.random()
                    znew = ([x * rng.choice([2., 0.5, 4.]) for x in cur[i]] if r2 < 0.3 else gen_z(rng, n))
                    ops.append(['set', i, znew]); cur[i] = znew
                    continue
                which = rng.choice(['Ty', 'Py', 'Tx', 'Px', 'Py', 'Px'])
                var = 'P' if which[0] == 'T' else 'T'
                arg = fixed[var] if rng.random() < 0.7 else dy(rng, PS if var == 'P' else TS)
                ops.append(['call', which, rng.randrange(len(bufs)), arg])
            first = next(o for o in ops if o[0] == 'call')
            if rng.random() < 0.7:
                ops.append(list(first))           # the first call again, after the others
        return {'kind': 'history', 'family': fam, 'pkg': pk, 'bufs': bufs, 'ops': ops,
                'ks': rng.choice([['newton'], ['echo'], ['newton']]), 'ki': rng.choice([['newton'], ['echo']]),
                'nweg': rng.choice([0, 1, 1, 2])}
    if r < 0.83:
        ch = gen_chem(rng)
        return {'kind': 'tsat', 'chem': ch, 'P': dy(rng, PS), 'ks': gen_kind(rng, 'T'), 'ki': gen_kind(rng, 'T', allow_raise=rng.random() < 0.3)}
    # constructor histories: explicit thermo or the session default (settings.set_thermo between the calls); besides the n
    # chemical objects there are n "twins": other Chemical objects with the SAME IDs but other vapour-pressure correlations
    # (a re-fitted / re-created chemical): object i + n is the twin of object i
    pk = gen_pkg(rng, n=rng.choice([3, 4, 5]))
    n = len(pk['chems'])
    twins = []
    for c in pk['chems']:
        t = gen_chem(rng)
        t.update(a=c['a'], c=c['c'], d=c['d'])      # the stand-in Gamma/Phi/PCF read their parameters per ID
        twins.append(t)
    THS = ['iii', 'sii', 'isi', 'iis', 'sss']
    ops = []
    news = []
    for _ in range(rng.randint(4, 10)):
        r2 = rng.random()
        if r2 < 0.25:
            ops.append(['default', rng.choice(THS)])
            continue
        if news and r2 < 0.65:
            k = [x if not isinstance(x, list) else list(x) for x in rng.choice(news)]
            r3 = rng.random()
            if r3 < 0.3:
                k[2] = rng.choice(THS + [None, None])
            elif r3 < 0.7 and k[1]:
                # the same IDs in the same order, some of the objects replaced by their twins
                k[1] = [(i + n) % (2 * n) if rng.random() < 0.6 else i for i in k[1]]
        else:
            m = rng.choice([0, 1, 2, 2, 3, n])
            k = ['new', [i + n * rng.choice([0, 0, 1]) for i in rng.sample(range(n), m)], rng.choice(THS + [None, None, None]),
                 rng.choice(['tuple', 'list'])]
        news.append(k); ops.append([x if not isinstance(x, list) else list(x) for x in k])
    return {'kind': 'cache', 'pkg': pk, 'twins': twins, 'cls': rng.choice(['B', 'D']), 'ops': ops}

def gen_cases(rng, tier):
    n = 330 if tier == 'quick' else 6000
    cases = [gen_case(rng) for _ in range(n)]
    # real database chemicals and real flexsolve: the property clauses and the package contracts the theorems assume
    # (pure, permutation-equivariant Gamma/Phi/PCF, Gamma.f/args == Gamma()) evaluated directly, on every run
    # stratified: every (template, package) combination occurs in every run; the draws inside a case come from rng
    combos = [(t, p) for p in PACKAGES for t in TEMPLATES]
    return cases + [gen_real(rng, *combos[i % len(combos)]) for i in range(30 if tier == 'quick' else 150)]

# ------------------------------------------------------------------ implementation side
def mk_point(case_cls, cs, thermo):
    e = env()
    return (e['eq'].BubblePoint if case_cls == 'B' else e['eq'].DewPoint)(cs, thermo)

def run_kernel(case):
    cs, thermo = install(case['pkg'])
    sub = case['sub']
    obj = mk_point('B' if sub[0] == 'b' else 'D', cs, thermo)
    T, P = case['T'], case['P']
    v1, v2, v3 = (np.array(case[k], float) for k in ('v1', 'v2', 'v3'))
    buf = np.array(case['buf'], float)
    with stubbed(Shim(['raise'], ['raise'], case['nweg'])):
        if sub == 'bT':
            f = lambda: [float(obj._T_error(T, P, v1, v2, buf)), fl(buf)]
        elif sub == 'bP':
            f = lambda: [float(obj._P_error(P, T, v1, v3, buf)), fl(buf)]
        elif sub == 'bTi':
            f = lambda: [float(obj._T_error_ideal(T, v1, buf)), fl(buf)]
        elif sub == 'bPyi':
            def f():
                Pg, y = obj._Py_ideal(v1)
                return [float(Pg), fl(y)]
        elif sub == 'dT':
            f = lambda: [float(obj._T_error(T, P, v2, v1, buf)), fl(buf)]
        elif sub == 'dP':
            f = lambda: [float(obj._P_error(P, T, v2, v1, v3, buf)), fl(buf)]
        elif sub == 'dTi':
            f = lambda: [float(obj._T_error_ideal(T, v1, buf)), fl(buf)]
        else:
            def f():
                Pg, x = obj._Px_ideal(v1)
                return [float(Pg), fl(x)]
        return {'res': guarded(f), 'dom': [obj.Tmin, obj.Tmax, obj.Pmin, obj.Pmax]}

def run_solve(case):
    cs, thermo = install(case['pkg'])
    which = case['which']
    obj = mk_point('B' if which[1] == 'y' else 'D', cs, thermo)
    z = np.array(case['z'], float)
    shim = Shim(case['ks'], case['ki'], case['nweg'])
    with stubbed(shim):
        if case['via_call']:
            def f():
                v = obj(case['z'], T=case['T'], P=case['P'])
                return [float(v.T), float(v.P), fl(v.y if which[1] == 'y' else v.x)]
        else:
            m = getattr(obj, 'solve_' + which)
            arg = case['P'] if which[0] == 'T' else case['T']
            def f():
                r = m(z, arg)
                return [float(r[0]), fl(r[1])]
        res = guarded(f)
    prep = None
    for t in shim.trace:       # arguments of the (first) open-solver call on the full residual = the z pre-processing
        if t['solver'] == 'secant' and t['arrays']:
            prep = t['arrays']
            break
    return {'res': res, 'prep': prep, 'solvers': [t['solver'] for t in shim.trace],
            'dom': [obj.Tmin, obj.Tmax, obj.Pmin, obj.Pmax]}

def run_tsat(case):
    pk = {'chems': [case['chem']], 'G': 'i', 'Phi': 'i', 'PCF': 'i'}
    cs, _ = install(pk)
    shim = Shim(case['ks'], case['ki'], 0)
    with stubbed(shim):
        res = guarded(lambda: float(cs[0].Tsat(case['P'], check_validity=False)))
    return {'res': res, 'solvers': [t['solver'] for t in shim.trace]}

def pk_ids(o):
    """class ids of the package objects an instance holds: 0 = ideal / mock, 1 = stand-in class"""
    return [int(type(o.gamma).__name__.startswith('Stub')), int(type(o.phi).__name__.startswith('Stub')),
            int(type(o.pcf).__name__.startswith('Stub'))]

def run_cache(case, keep=None):
    cs, _ = install(case['pkg'], case.get('twins'))
    npool = len(case['pkg']['chems'])
    e = env()
    tmo = e['tmo']
    cls = e['eq'].BubblePoint if case['cls'] == 'B' else e['eq'].DewPoint
    objs, ids, doms, oks, pks = [], [], [], [], []
    tmo.settings.set_thermo(e['thermos']['iii'])
    try:
        for op in case['ops']:
            if op[0] == 'default':
                tmo.settings.set_thermo(e['thermos'][op[1]])
                continue
            _, idx, th, form = op
            chs = [cs[i] for i in idx]
            chs = tuple(chs) if form == 'tuple' else list(chs)
            try:
                o = cls(chs) if th is None else cls(chs, e['thermos'][th])
            except Exception as ex:
                oks.append(ERR.get(type(ex).__name__, 'EOther')); ids.append(None); doms.append(None); pks.append(None)
                continue
            oks.append('ok')
            for j, p in enumerate(objs):
                if p is o:
                    ids.append(j); break
            else:
                objs.append(o); ids.append(len(objs) - 1)
            doms.append([o.Tmin, o.Tmax, o.Pmin, o.Pmax])
            pks.append(pk_ids(o))
            if keep is not None:
                keep.append(o)
            if tuple(o.IDs) != tuple(POOL[i % npool] for i in idx):
                oks[-1] = 'wrong-IDs'
    finally:
        tmo.settings.set_thermo(e['thermos']['iii'])
    return {'oks': oks, 'ids': ids, 'doms': doms, 'pks': pks}

def run_history(case):
    cs, thermo = install(case['pkg'])
    BP, DP = mk_point('B', cs, thermo), mk_point('D', cs, thermo)
    arrays = [np.array(b, float) for b in case['bufs']]
    res = []
    with stubbed(Shim(case['ks'], case['ki'], case['nweg'])):
        for op in case['ops']:
            if op[0] == 'set':
                arrays[op[1]][:] = op[2]
                continue
            _, which, i, arg = op
            obj = BP if which[1] == 'y' else DP
            m = getattr(obj, 'solve_' + which)
            def f(m=m, a=arrays[i], arg=arg):
                r = m(a, arg)              # the caller's array object itself
                return [float(r[0]), fl(r[1])]
            res.append(guarded(f))
    return {'res': res, 'bufs': [fl(a) for a in arrays], 'dom': [BP.Tmin, BP.Tmax, BP.Pmin, BP.Pmax]}

def run_impl(case):
    k = case['kind']
    if k == 'history': return run_history(case)
    if k == 'kernel': return run_kernel(case)
    if k == 'solve': return run_solve(case)
    if k == 'tsat': return run_tsat(case)
    if k == 'cache': return run_cache(case)
    if k == 'real': return {'real': oracle(case)}
    raise ValueError(k)

# ------------------------------------------------------------------ model side
def cchem(c):
    return (f'(mkchem (quad {q(c["c0"])} {q(c["c1"])} {q(c["c2"])}) {q(c["Tlo"])} {q(c["Thi"])} '
            f'{copt(c["Tb"], q)} {q(c["Tc"])} {q(c["Pc"])})')

def cpkg_args(pk, idx=None):
    cs = pk['chems'] if idx is None else [pk['chems'][i] for i in idx]
    n = len(cs)
    g = f'(ideal_gam {cnat(n)})' if pk['G'] == 'i' else f'(stub_gam {qlist([c["a"] for c in cs])})'
    ph = f'(ideal_phi {cnat(n)})' if pk['Phi'] == 'i' else f'(stub_phi {qlist([c["c"] for c in cs])})'
    pc = f'(mock_pcf {cnat(n)})' if pk['PCF'] == 'i' else f'(stub_pcf {qlist([c["d"] for c in cs])})'
    return f'{clist([cchem(c) for c in cs])} {g} {cbool(pk["Phi"] == "i")} {ph} {pc}'

def ckind(k):
    if k[0] == 'table': return f'(KTable {q(k[1])} {q(k[2])})'
    return {'newton': 'KNewton', 'echo': 'KEcho', 'raise': 'KRaise'}[k[0]]

def csolvers(case):
    return f'(stub_solvers {ckind(case.get("ks", ["raise"]))} {ckind(case.get("ki", ["raise"]))} {cnat(case.get("nweg", 0))})'

def cres_qv(res):
    if res[0] == 'ok':
        return f'(Ok ({q(res[1][0])}, {qlist(res[1][1])}))'
    return f'(Err {res[1]})'

def with_pkg(pk, body, dom=None):
    d = ''
    if dom is not None:
        d = f'dom_approxb (Ok (pkg_dom k)) (Ok ({q(dom[0])}, {q(dom[1])}, {q(dom[2])}, {q(dom[3])})) && '
    return f'(match new_pkg {cpkg_args(pk)} with Ok k => {d}{body} | Err _ => false end)'

def coq_case(case, out):
    kd = case['kind']
    S = csolvers(case)
    if kd == 'kernel':
        sub = case['sub']
        T, P = q(case['T']), q(case['P'])
        v1, v2, v3, buf = (qlist(case[k]) for k in ('v1', 'v2', 'v3', 'buf'))
        exp = cres_qv(out['res'])
        term = {
            'bT': f'bubble_T_error k {S} {P} {v1} {v2} {buf} {T}',
            'bP': f'bubble_P_error k {S} {T} {v1} {v3} {buf} {P}',
            'bTi': f'bubble_T_error_ideal k {v1} {buf} {T}',
            'bPyi': f'Ok (Py_ideal {v1})',
            'dT': f'dew_T_error k {S} {P} {v2} {v1} {buf} {T}',
            'dP': f'dew_P_error k {S} {T} {v2} {v1} {v3} {buf} {P}',
            'dTi': f'dew_T_error_ideal k {v1} {buf} {T}',
            'dPxi': f'Px_ideal {v1}'}[sub]
        return with_pkg(case['pkg'], f'rqv_approxb ({term}) {exp}', out['dom'])
    if kd == 'solve':
        which = case['which']
        z = qlist(case['z'])
        res = out['res']
        bub = which[1] == 'y'
        if case['via_call']:
            fn = 'bubble_call' if bub else 'dew_call'
            exp = (f'(Ok ({q(res[1][0])}, {q(res[1][1])}, {qlist(res[1][2])}))' if res[0] == 'ok' else f'(Err {res[1]})')
            body = f'call_approxb ({fn} k {S} {z} {copt(case["T"], q)} {copt(case["P"], q)}) {exp}'
        else:
            arg = q(case['P'] if which[0] == 'T' else case['T'])
            body = f'rqv_approxb (solve_{which} k {S} {z} {arg}) {cres_qv(res)}'
        # composition arguments handed to the solver
        prep = out.get('prep')
        if prep is not None and len(prep) >= 2:
            called_T = which[0] == 'T' if not case['via_call'] else not (case['T'] is not None and case['T'] != 0)
            if bub and called_T:
                P = q(case['P'])
                body += f' && vapproxb (fst (Ty_prep {z} {P})) {qlist(prep[0])} && vapproxb (snd (Ty_prep {z} {P})) {qlist(prep[1])}'
            elif bub:
                T = q(case['T'])
                body += f' && vapproxb (Py_prep k {z} (clampT k {T})) {qlist(prep[0])} && vapproxb (psats_at k (clampT k {T})) {qlist(prep[1])}'
            elif called_T:
                P = q(case['P'])
                body += f' && vapproxb (fst (Tx_prep {z} {P})) {qlist(prep[0])} && vapproxb (snd (Tx_prep {z} {P})) {qlist(prep[1])}'
            else:
                T = q(case['T'])
                body += f' && vapproxb (fst (Px_prep k {z} {T})) {qlist(prep[0])} && vapproxb (snd (Px_prep k {z} {T})) {qlist(prep[1])}'
        return with_pkg(case['pkg'], body, out['dom'])
    if kd == 'history':
        ops = clist([f'(HSet {cnat(o[1])} {qlist(o[2])})' if o[0] == 'set' else f'(HCall W{o[1]} {cnat(o[2])} {q(o[3])})'
                     for o in case['ops']])
        exp = clist([cres_qv(r) for r in out['res']])
        bufs = clist([qlist(b) for b in case['bufs']])
        body = (f'(let r := run_hist k {S} {bufs} {ops} in list_eqb rqv_approxb (fst r) {exp} && '
                f'list_eqb vapproxb (snd r) {clist([qlist(b) for b in out["bufs"]])})')
        return with_pkg(case['pkg'], body, out['dom'])
    if kd == 'tsat':
        res = out['res']
        exp = f'(Ok {q(res[1])})' if res[0] == 'ok' else f'(Err {res[1]})'
        return f'(rq_approxb (Tsat {S} {cchem(case["chem"])} {q(case["P"])}) {exp})'
    if kd == 'cache':
        pk = case['pkg']
        # class ids of Gamma/Phi/PCF: 0 = ideal/mock, 1 = stand-in; chemical object ids = pool positions
        def cth(th):
            return f'({cnat(th[0] == "s")}, {cnat(th[1] == "s")}, {cnat(th[2] == "s")})'
        ops = clist([f'(CDefault {cth(o[1])})' if o[0] == 'default' else
                     f'(CNew {clist(o[1], cnat)} {"None" if o[2] is None else "(Some " + cth(o[2]) + ")"})' for o in case['ops']])
        allc = clist([cchem(c) for c in pk['chems'] + list(case.get('twins') or [])])
        build = (f'(fun ky : key => match ky with (ids, g, p, f) => '
                 f'let cs := map (fun i => nth i {allc} (mkchem (quad 0 0 0) 0 0 None 0 0)) ids in '
                 f'do k <- new_pkg cs (ideal_gam 0) true (ideal_phi 0) (mock_pcf 0); Ok (pkg_dom k, (g, p, f)) end)')
        exp = []
        for ok, i, d, pkc in zip(out['oks'], out['ids'], out['doms'], out['pks']):
            if ok == 'ok':
                exp.append(f'(Ok ({cnat(i)}, (({q(d[0])}, {q(d[1])}, {q(d[2])}, {q(d[3])}), ({cnat(pkc[0])}, {cnat(pkc[1])}, {cnat(pkc[2])}))))')
            elif ok.startswith('E'):
                exp.append(f'(Err {ok})')
            else:
                return 'false'
        pkeq = ('(fun a b : nat * nat * nat => match a, b with (a1, a2, a3), (b1, b2, b3) => '
                'Nat.eqb a1 b1 && Nat.eqb a2 b2 && Nat.eqb a3 b3 end)')
        cmp_ = (f'(res_eqb (fun u v => Nat.eqb (fst u) (fst v) && dom_approxb (Ok (fst (snd u))) (Ok (fst (snd v))) && '
                f'{pkeq} (snd (snd u)) (snd (snd v))))')
        return f'(list_eqb {cmp_} (run_session {build} ([], 0%nat) (0%nat, 0%nat, 0%nat) {ops}) {clist(exp)})'
    if kd == 'real':
        return cbool(out.get('real') is None)
    raise ValueError(kd)

def coq_show(case, out):
    kd = case['kind']
    S = csolvers(case)
    if kd == 'solve':
        z = qlist(case['z'])
        if case['via_call']:
            fn = 'bubble_call' if case['which'][1] == 'y' else 'dew_call'
            return f'(do k <- new_pkg {cpkg_args(case["pkg"])}; {fn} k {S} {z} {copt(case["T"], q)} {copt(case["P"], q)})'
        arg = q(case['P'] if case['which'][0] == 'T' else case['T'])
        return f'(do k <- new_pkg {cpkg_args(case["pkg"])}; do r <- solve_{case["which"]} k {S} {z} {arg}; Ok (r, pkg_dom k))'
    if kd == 'tsat':
        return f'(Tsat {S} {cchem(case["chem"])} {q(case["P"])})'
    return 'tt'

def nontrivial(case, out):
    kd = case['kind']
    if kd == 'history':
        return sum(1 for r in out['res'] if r[0] == 'ok') >= 2
    if kd in ('kernel', 'tsat'):
        return out['res'][0] == 'ok'
    if kd == 'solve':
        return out['res'][0] == 'ok' and bool(out.get('solvers'))
    if kd == 'cache':
        ids = [i for i in out['ids'] if i is not None]
        return len(ids) > len(set(ids))
    return True

def classify(case, out):
    kd = case['kind']
    ks = ['kind:' + kd]
    if kd == 'kernel':
        ks += ['kernel:' + case['sub'] + ':' + (out['res'][0] if out['res'][0] == 'ok' else out['res'][1])]
    elif kd == 'solve':
        z = case['z']
        npos = sum(1 for x in z if x > 0)
        ks += ['solve:' + case['which'] + (':call' if case['via_call'] else ''), 'N:' + ('0' if npos == 0 else '1' if npos == 1 else '>=2'),
               'result:' + (out['res'][0] if out['res'][0] == 'ok' else out['res'][1]),
               'package:' + case['pkg']['G'] + case['pkg']['Phi'] + case['pkg']['PCF'],
               'sum_z:' + ('1' if sum(z) == 1 else 'other')]
        ks += ['solvers:' + '+'.join(out.get('solvers', [])[:4])]
        if case['ks'][0] == 'raise': ks.append('fallback-bracketing-solver')
    elif kd == 'history':
        ks += ['history:family:' + case.get('family', 'mix'), 'history:len%d' % len(case['ops']), 'history:in-place-updates:%d' % sum(1 for o in case['ops'] if o[0] == 'set')]
        ks += ['history-result:' + (r[0] if r[0] == 'ok' else r[1]) for r in out['res']]
    elif kd == 'real':
        ks += ['real:' + case['package'], 'real:template:' + case.get('template', 'corpus'), 'real:n%d' % len(case['ids'])]
    elif kd == 'tsat':
        ks += ['tsat:' + ('+'.join(out['solvers']) or 'Tb-shortcut') + ':' + (out['res'][0] if out['res'][0] == 'ok' else out['res'][1])]
    elif kd == 'cache':
        ks += ['cache:' + ('hit' if nontrivial(case, out) else 'nohit')] + ['cache-result:' + o for o in out['oks']]
        npool = len(case['pkg']['chems'])
        ks += ['cache:constructions-with-twin-objects:%d' % sum(1 for o in case['ops'] if o[0] == 'new' and any(i >= npool for i in o[1]))]
        ks += ['cache:default-package-switches:%d' % sum(1 for o in case['ops'] if o[0] == 'default'),
               'cache:calls-without-thermo:%d' % sum(1 for o in case['ops'] if o[0] == 'new' and o[2] is None)]
    return ks

# ------------------------------------------------------------------ direct oracle
_real = {}
# database chemicals: described by the group-contribution packages / not described by them (their gamma defaults to 1 and
# they are skipped by the group sub-problem) / with a vapour-pressure correlation that starts above 260 K
GROUPED = ['Water', 'Ethanol', 'Methanol', 'Propanol', 'Acetone', 'Hexane', 'Benzene', 'CS2', 'Acetaldehyde', 'FormicAcid']
GROUPLESS = ['SO2', 'Ammonia', 'Br2', 'NO2', 'Cl2', 'Hydrazine']
# lower end of the vapour-pressure correlation [K] (rounded): the VLE domain of an object starts at the lowest of these, and its
# ideal-guess bracket 10 K above that
HIGH_TMIN = {'Benzene': 278.7, 'CS2': 277.0, 'Br2': 265.9, 'NO2': 261.9, 'Acetaldehyde': 273.0, 'FormicAcid': 281.5,
             'Propanol': 260.0, 'Hydrazine': 274.7}
REAL_IDS = ['Water', 'Ethanol', 'Methanol', 'Propanol', 'Acetone']
PACKAGES = ['ideal', 'dortmund', 'unifac']

def real_env():
    if not _real:
        e = env()
        tmo, eq = e['tmo'], e['eq']
        base = tmo.Chemicals(['Water', 'Ethanol'], cache=True)   # BubblePoint/DewPoint read only Gamma/Phi/PCF of the thermo
        _real.update(chems={},
                     dortmund=tmo.Thermo(base),     # Dortmund activity coefficients (default package)
                     unifac=tmo.Thermo(base, Gamma=eq.UNIFACActivityCoefficients),
                     ideal=tmo.Thermo(base, Gamma=eq.IdealActivityCoefficients, Phi=eq.IdealFugacityCoefficients,
                                      PCF=eq.MockPoyintingCorrectionFactors))
    return _real

def real_chem(ID):
    r = real_env()
    if ID not in r['chems']:
        r['chems'][ID] = env()['tmo'].Chemical(ID, cache=True)
    return r['chems'][ID]

def rel(a, b):
    return abs(a - b) / max(1., abs(a), abs(b))

def vclose(a, b, tol=1e-9):
    a = np.broadcast_to(np.asarray(a, float), np.shape(b) if np.ndim(b) else np.shape(a))
    b = np.broadcast_to(np.asarray(b, float), a.shape)
    return bool(np.all(np.abs(a - b) <= tol * np.maximum(1., np.maximum(np.abs(a), np.abs(b)))))

def package_contracts(BP, DP, BPp, chs, zn, perm, T, P, label):
    """What the theorems assume of the package objects, measured: Gamma / Phi / PCF are functions of their arguments only
    (the same evaluation twice gives the same numbers), Gamma.f(x, T, *Gamma.args) is Gamma(x, T), and a permuted chemical
    list gives the permuted coefficients.  Returns a message or None."""
    perm = list(perm)
    x = np.array(zn, float)
    g1 = np.array(BP.gamma(x.copy(), T), float) * np.ones(len(x))
    g2 = np.array(BP.gamma(x.copy(), T), float) * np.ones(len(x))
    if not vclose(g1, g2):
        return (f'{label}: activity coefficients at the same (x, T) change between two evaluations (state kept between calls): '
                f'{g1.tolist()} then {g2.tolist()}')
    gf = np.array(DP.gamma.f(x.copy(), T, *DP.gamma.args), float) * np.ones(len(x))
    if not vclose(gf, g2):
        return f'{label}: Gamma.f(x, T, *Gamma.args) = {gf.tolist()} differs from Gamma(x, T) = {g2.tolist()}'
    gp = np.array(BPp.gamma(x[perm].copy(), T), float) * np.ones(len(x))
    if not vclose(gp, g2[perm], 1e-8):
        return (f'{label}: activity coefficients are not permuted with the chemical list: order {[c.ID for c in chs]} gives '
                f'{g2.tolist()}, order {[chs[i].ID for i in perm]} gives {gp.tolist()}')
    Ps = np.array([c.Psat(T) for c in chs], float)
    for name, f, fp in (('fugacity coefficients', lambda o, xx, pp: o.phi(xx, T, P), None),
                        ('Poyinting factors', lambda o, xx, pp: o.pcf(T, P, pp), None)):
        a1 = np.array(f(BP, x.copy(), Ps.copy()), float) * np.ones(len(x))
        a2 = np.array(f(BP, x.copy(), Ps.copy()), float) * np.ones(len(x))
        ap = np.array(f(BPp, x[perm].copy(), Ps[perm].copy()), float) * np.ones(len(x))
        if not vclose(a1, a2): return f'{label}: {name} change between two identical evaluations: {a1.tolist()} then {a2.tolist()}'
        if not vclose(ap, a2[perm], 1e-8): return f'{label}: {name} are not permuted with the chemical list'
    return None

STRICT_DEW = bool(os.environ.get('STRICT_DEW'))

class Clause(Exception):
    """a property clause found violated while the oracle was evaluating (carries the replay message)"""

_RAISE_IS_CLAUSE = [False]     # real chemicals: a solver that raises has not computed a bubble / dew point

def call(obj, name, label, z, arg):
    """obj.<name>(z, arg); for real chemicals an exception of the implementation is itself the finding"""
    try:
        return getattr(obj, name)(z, arg)
    except ReferenceError:
        raise
    except Exception as ex:
        if _RAISE_IS_CLAUSE[0]:
            what = 'bubble' if name[-1] == 'y' else 'dew'
            raise Clause(f'{label}: no {what} point computed: {type(obj).__name__}.{name} raised {type(ex).__name__}: {ex} '
                         f'(z={np.asarray(z).tolist()}, arg={arg!r})')
        raise

def domain_of(chs):
    """the VLE domain and pressure bounds of a chemical list, computed here from the chemicals' own Psat handles"""
    Ps = [c.Psat for c in chs]
    Tmin = max(min(p.Tmin for p in Ps), 50.) + 1e-2
    Tmax = min(max(p.Tmax for p in Ps), 1000.) - 1e-2
    return Tmin, Tmax, min(p(Tmin) for p in Ps), max(p(Tmax) for p in Ps)

def instance_data(objs, label):
    """an instance (cached or not) carries the data a fresh build from its own chemical objects gives (C08_cache_coherent,
    C08_instance_domain)"""
    for o in objs:
        want = domain_of(o.chemicals)
        got = (o.Tmin, o.Tmax, o.Pmin, o.Pmax)
        if any(rel(a, b) > 1e-9 for a, b in zip(got, want)):
            return (f'{label}: {type(o).__name__}([{", ".join(o.IDs)}]) carries Tmin/Tmax/Pmin/Pmax = {list(got)}, but the vapour-pressure '
                    f'correlations of the chemical objects it was built for give {list(want)} (stale or foreign instance data)')
        if tuple(c.ID for c in o.chemicals) != tuple(o.IDs) or any(p is not c.Psat for p, c in zip(o.Psats, o.chemicals)):
            return f'{label}: {type(o).__name__} holds IDs / Psat handles that are not those of its chemicals'
    return None

def in_dom(obj, T):
    # strictly inside: a result AT an end of the object's domain is where the bounded solver stops when the root lies outside
    return obj.Tmin + 1e-6 < T < obj.Tmax - 1e-6

def check_pair(BP, DP, chs, z, T, P, ideal, label, strict=False):
    strict = strict or STRICT_DEW
    """Property clauses for one (objects, composition) pair; returns a message or None."""
    z = np.asarray(z, float)
    npos = int((z > 0).sum())
    if npos == 0:
        return None
    zn = z / z.sum()
    ideal_phi = isinstance(BP.phi, env()['eq'].IdealFugacityCoefficients)
    if P is not None:
        Tb, y = call(BP, 'solve_Ty', label, z.copy(), P)
        Td, x = call(DP, 'solve_Tx', label, z.copy(), P)
        # (sign test only where every vapour pressure is positive: the quadratic stand-ins are negative below their T0)
        pos_b = all(c.Psat(Tb) > 0 for c in chs); pos_d = all(c.Psat(Td) > 0 for c in chs)
        if abs(1 - y.sum()) > 1e-9 or (pos_b and (y < 0).any()): return f'{label}: bubble y not normalised: sum={y.sum()!r}, y={y.tolist()}'
        if abs(1 - x.sum()) > 1e-9 or (pos_d and (x < 0).any()): return f'{label}: dew x not normalised: sum={x.sum()!r}, x={x.tolist()}'
        if npos == 1:
            c = chs[int(np.argmax(z > 0))]
            exp = c.Tsat(P, check_validity=False) if P <= c.Pc else c.Tc
            if rel(Tb, exp) > 1e-9 or rel(Td, exp) > 1e-9:
                return f'{label}: single component {c.ID}: T_bubble={Tb!r}, T_dew={Td!r}, Tsat(P)={exp!r}'
            # Chemical.Tsat returns the tabulated Tb at exactly 101325 Pa without consulting Psat (see C08_Tsat_is_saturation)
            if P <= c.Pc and not (P == 101325 and c.Tb) and rel(c.Psat(Tb), P) > 1e-4:
                return f'{label}: single component {c.ID}: Psat(T)={c.Psat(Tb)!r} differs from P={P!r}'
            return None
        # the defining equations, wherever the returned temperature lies in the domain the object itself declares
        # (the residual is evaluated with the object's own Psat / gamma / phi / pcf, so it is meaningful on all of it)
        def res_b(t):
            ps = np.array([c.Psat(t) for c in chs])
            return 1 - (zn * ps * BP.gamma(zn, t) * BP.pcf(t, P, ps) / P).sum()
        def res_d(t):
            ps = np.array([c.Psat(t) for c in chs])
            return 1 - (zn * P / ps).sum()
        def bracketed(f, lo, hi):
            # the specification is inside the object's domain only if the equation has a root there
            try:
                a, b = f(lo), f(hi)
                return bool(np.isfinite(a) and np.isfinite(b) and a * b < 0)
            except Exception:
                return False
        bub_in = ideal_phi and bracketed(res_b, BP.Tmin, BP.Tmax)
        dew_in = (not ideal) or bracketed(res_d, DP.Tmin, DP.Tmax)
        if in_dom(BP, Tb) and bub_in:
            Ps = np.array([c.Psat(Tb) for c in chs])
            yy = zn * Ps * BP.gamma(zn, Tb) * BP.pcf(Tb, P, Ps) / P
            if not ideal_phi:
                yy = yy / BP.phi(y, Tb, P)
            if abs(1 - yy.sum()) > 1e-6:
                return (f'{label}: bubble equation violated at the returned T={Tb!r} (P={P!r}): 1 - sum y on the normalised '
                        f'composition is {1 - yy.sum()!r}')
            if not vclose(yy / yy.sum(), y, 1e-6):
                return f'{label}: returned y={y.tolist()} is not the normalised Raoult vector {(yy / yy.sum()).tolist()} at T={Tb!r}'
            P2 = call(BP, 'solve_Py', label, z.copy(), Tb)[0]
            if rel(P2, P) > 1e-6: return f'{label}: solve_Py(z, solve_Ty(z, P)) = {P2!r} differs from P = {P!r}'
        # With a composition-dependent gamma the inner x*gamma iteration (flexsolve.wegstein, maxiter 50, convergence not
        # checked) does not converge for partially miscible systems on the unchanged tree (e.g. Water/Ammonia/Benzene, Dortmund:
        # 1 - sum x = 0.66); that is the solver-convergence clause DESIGN section 4 lists as measured, not proved, and it is
        # reported separately (STRICT_DEW=1 turns the test on for every package).
        if in_dom(DP, Td) and (ideal or strict) and dew_in:
            Ps = np.array([c.Psat(Td) for c in chs])
            xx = zn * P / Ps / DP.gamma(x, Td) * DP.phi(zn, Td, P) / DP.pcf(Td, P, Ps)
            if abs(1 - xx.sum()) > 1e-6:
                return (f'{label}: dew equation violated at the returned T={Td!r} (P={P!r}): 1 - sum x on the normalised '
                        f'composition is {1 - xx.sum()!r}')
            # (the dew equation with a composition-dependent gamma can have several liquid roots - e.g. water/hexane - so the
            #  dew inverse is held to ideal K-values only; C08_TP_inverse is the bubble statement, which holds for any gamma)
            if ideal:
                P3 = call(DP, 'solve_Px', label, z.copy(), Td)[0]
                if rel(P3, P) > 1e-6: return f'{label}: solve_Px(z, solve_Tx(z, P)) = {P3!r} differs from P = {P!r}'
        if ideal and bub_in and dew_in and in_dom(BP, Tb) and in_dom(DP, Td) and Tb > Td + 1e-6:
            return f'{label}: T_bubble={Tb!r} exceeds T_dew={Td!r} at P={P!r}'
    if T is not None:
        Pb, y = call(BP, 'solve_Py', label, z.copy(), T)
        Pd, x = call(DP, 'solve_Px', label, z.copy(), T)
        if abs(1 - y.sum()) > 1e-9 or abs(1 - x.sum()) > 1e-9: return f'{label}: output not normalised at T={T!r}'
        if npos == 1:
            c = chs[int(np.argmax(z > 0))]
            exp = c.Psat(T) if T <= c.Tc else c.Pc
            if rel(Pb, exp) > 1e-9 or rel(Pd, exp) > 1e-9:
                return f'{label}: single component {c.ID}: P_bubble={Pb!r}, P_dew={Pd!r}, Psat(T)={exp!r}'
            return None
        # (T inside every chemical's own vapour-pressure range is inside any correct domain: a stale / foreign domain on the
        #  object must not switch the test off)
        if BP.Tmin < T < BP.Tmax or all(c.Psat.Tmin + 0.02 < T < c.Psat.Tmax - 0.02 for c in chs):
            Ps = np.array([c.Psat(T) for c in chs])
            if True:
                yy = zn * Ps * BP.gamma(zn, T) * BP.pcf(T, Pb, Ps) / Pb
                if not ideal_phi:
                    yy = yy / BP.phi(y, T, Pb)
                if abs(1 - yy.sum()) > 1e-6:
                    return (f'{label}: bubble equation violated at T={T!r}, returned P={Pb!r}: 1 - sum y on the normalised '
                            f'composition is {1 - yy.sum()!r}')
            xx = zn * Pd / Ps / DP.gamma(x, T) * DP.phi(zn, T, Pd) / DP.pcf(T, Pd, Ps)
            if (ideal or strict) and abs(1 - xx.sum()) > 1e-6:
                return (f'{label}: dew equation violated at T={T!r}, returned P={Pd!r}: 1 - sum x on the normalised '
                        f'composition is {1 - xx.sum()!r}')
            if ideal and Pd > Pb * (1 + 1e-9): return f'{label}: P_dew={Pd!r} exceeds P_bubble={Pb!r} at T={T!r}'
            # T -> P -> T: the temperature solve at the pressure just obtained returns the temperature
            # (with composition-dependent gamma the root in T need not be unique, so only ideal K-values are held to it
            #  strictly; the other packages must at least return a point that satisfies the equation, checked above for P-cases)
            if all(c.Psat.Tmin <= T <= c.Psat.Tmax for c in chs):
                T2, y2 = call(BP, 'solve_Ty', label, z.copy(), Pb)
                if ideal and rel(T2, T) > 1e-6:
                    return f'{label}: solve_Ty(z, solve_Py(z, T)) = {T2!r} differs from T = {T!r} (P_bubble={Pb!r})'
                if in_dom(BP, T2):
                    Ps2 = np.array([c.Psat(T2) for c in chs])
                    yy = zn * Ps2 * BP.gamma(zn, T2) * BP.pcf(T2, Pb, Ps2) / Pb
                    if not ideal_phi:
                        yy = yy / BP.phi(y2, T2, Pb)
                    if abs(1 - yy.sum()) > 1e-6:
                        return (f'{label}: bubble equation violated at the returned T={T2!r} for P=P_bubble({T!r})={Pb!r}: '
                                f'1 - sum y = {1 - yy.sum()!r}')
                T3, x3 = call(DP, 'solve_Tx', label, z.copy(), Pd)
                if ideal and rel(T3, T) > 1e-6:
                    return f'{label}: solve_Tx(z, solve_Px(z, T)) = {T3!r} differs from T = {T!r} (P_dew={Pd!r})'
                if ideal and in_dom(BP, T2) and in_dom(DP, T3):
                    Tb_at_Pd = call(BP, 'solve_Ty', label, z.copy(), Pd)[0]
                    if in_dom(BP, Tb_at_Pd) and Tb_at_Pd > T3 + 1e-6:
                        return f'{label}: T_bubble={Tb_at_Pd!r} exceeds T_dew={T3!r} at P={Pd!r}'
    return None

CALLS = (('solve_Ty', 'B', 'P'), ('solve_Tx', 'D', 'P'), ('solve_Py', 'B', 'T'), ('solve_Px', 'D', 'T'))

def dew_converged(DP, chs, zn, name, arg, r):
    """did the dew solve reach a point that satisfies its own equation?  (see the note on STRICT_DEW)"""
    T, P = (r[0], arg) if name == 'solve_Tx' else (arg, r[0])
    x = r[1]
    try:
        Ps = np.array([c.Psat(T) for c in chs])
        xx = zn * P / Ps / DP.gamma(x, T) * DP.phi(zn, T, P) / DP.pcf(T, P, Ps)
        return bool(abs(1 - xx.sum()) < 1e-7)
    except Exception:
        return False

def invariance(BP, DP, BPp, DPp, z, perm, k, T, P, label, ideal=True, chs=None, strict=False):
    strict = strict or STRICT_DEW
    z = np.asarray(z, float)
    if int((z > 0).sum()) == 0:
        return None
    perm = list(perm)
    zp = z[perm]
    zn = z / z.sum()
    # results of a dew solve with a composition-dependent gamma are compared only when the solves being compared converged
    gate = (lambda name, arg, r, o=DP, cc=chs, zz=zn: dew_converged(o, cc, zz, name, arg, r)) if (not ideal and chs is not None and not strict) else None
    first = {}
    for name, o, a in CALLS:
        obj, objp, arg = (BP, BPp, P if a == 'P' else T) if o == 'B' else (DP, DPp, P if a == 'P' else T)
        if arg is None:
            continue
        r0 = call(obj, name, label, z.copy(), arg)
        first[name] = r0
        dew_gate = gate is not None and o == 'D'
        if strict and not ideal and o == 'D' and chs is not None and not dew_converged(obj, chs, zn, name, arg, r0):
            return (f'{label}: dew equation violated by the point {name} returned ({r0[0]!r}, arg={arg!r}): the solve does not '
                    f'satisfy its own equation, so results for k*z / a permuted list are not comparable')
        ok0 = (not dew_gate) or gate(name, arg, r0)
        rk = call(obj, name, label, k * z, arg)
        if ok0 and ((not dew_gate) or gate(name, arg, rk)) and (rel(r0[0], rk[0]) > 1e-6 or np.abs(r0[1] - rk[1]).max() > 1e-6):
            return (f'{label}: {name} depends on the scale of z: z={z.tolist()} gives {r0[0]!r}, {k}*z gives {rk[0]!r} '
                    f'(arg={arg!r})')
        rp = call(objp, name, label, zp.copy(), arg)
        okp = (not dew_gate) or dew_converged(objp, [chs[i] for i in perm], zn[perm], name, arg, rp)
        if ok0 and okp and (rel(r0[0], rp[0]) > 1e-6 or np.abs(r0[1][perm] - rp[1]).max() > 1e-6):
            return (f'{label}: {name} depends on the order of the chemicals: {r0[0]!r}, {r0[1].tolist()} vs {rp[0]!r}, '
                    f'{rp[1].tolist()} for permutation {perm} (arg={arg!r})')
    # the caller's array handed over again after an in-place update: nothing remembered from the earlier call may show, and
    # the solvers must not write to the caller's array
    n = len(z)
    z2 = (z + z.sum() / n) * (1. + np.arange(n)) / n
    for name, o, a in CALLS:
        if name in first:
            obj, arg = (BP if o == 'B' else DP), (P if a == 'P' else T)
            r_fresh = call(obj, name, label, z2.copy(), arg)     # reference first: nothing of z2 is held by the caller afterwards
            buf = z.copy()
            call(obj, name, label, buf, arg)
            if not np.array_equal(buf, z):
                return f'{label}: {name} modified the composition array of its caller: {z.tolist()} -> {buf.tolist()}'
            buf[:] = z2
            r_alias = call(obj, name, label, buf, arg)
            if rel(r_alias[0], r_fresh[0]) > 1e-7 or np.abs(r_alias[1] - r_fresh[1]).max() > 1e-7:
                return (f'{label}: {name} depends on earlier calls: after the caller updated its array in place ({z.tolist()} -> '
                        f'{z2.tolist()}, same arg={arg!r}) it returned {r_alias[0]!r}; the same composition in a fresh array gives '
                        f'{r_fresh[0]!r} (the earlier result was {first[name][0]!r})')
    # the error path: when the open solver raises (InfeasibleRegion is a RuntimeError) the wrappers fall back on a bounded
    # solve over [Tmin, Tmax] / [Pmin, Pmax]; wherever the root lies inside that bracket the fall-back must find the same point
    for name, o, a in CALLS:
        if name in first:
            obj, arg = (BP if o == 'B' else DP), (P if a == 'P' else T)
            r0 = first[name]
            lo, hi = (obj.Tmin, obj.Tmax) if a == 'P' else (obj.Pmin, obj.Pmax)
            if not (lo < r0[0] < hi) or (o == 'D' and not ideal):
                continue        # (the dew equation with a composition-dependent gamma can have several roots)
            if a == 'T' and o == 'B' and not (obj.Tmin < arg < obj.Tmax):
                continue
            for how in ('runtime', 'infeasible'):
                try:
                    with forced_fallback(how):
                        rf = getattr(obj, name)(z.copy(), arg)
                except ReferenceError:
                    raise
                except Exception as ex:
                    # with both ends of the bracket in the physical region nothing in the fall-back itself can raise
                    if lo > 0 and hi > 0 and type(ex).__name__ == 'InfeasibleRegion':
                        return (f'{label}: {name} error path: the open solver stepped to a non-physical point and the residual raised '
                                f'InfeasibleRegion; instead of falling back on the bounded solver over [{lo!r}, {hi!r}] the wrapper let it '
                                f'escape: {ex} (arg={arg!r}, z={z.tolist()}; the regular path gives {r0[0]!r})')
                    continue
                if not (lo * (1 + 1e-9) + 1e-9 < rf[0] < hi * (1 - 1e-9) - 1e-9):
                    continue      # the bounded solver stopped at an end of its bracket: no root in the domain for this spec
                if rel(r0[0], rf[0]) > 1e-5:
                    return (f'{label}: {name} fall-back path (open solver failed: {how}): the bounded solver over [{lo!r}, {hi!r}] '
                            f'returned {rf[0]!r}, the regular path {r0[0]!r} (arg={arg!r}, z={z.tolist()})')
    # interleaving: the same call after a dew/bubble point on one side of the composition range and after one on the other
    # side must give the same numbers (a stateless implementation gives them bit for bit; C08_history_independent)
    if n >= 2:
        tot = z.sum()
        side_a = np.full(n, 0.03 * tot / (n - 1)); side_a[0] = 0.97 * tot
        side_b = np.full(n, 0.03 * tot / (n - 1)); side_b[-1] = 0.97 * tot
        for name, o, a in CALLS:
            if name in first:
                obj, arg = (BP if o == 'B' else DP), (P if a == 'P' else T)
                call(obj, name, label, side_a.copy(), arg)
                ra = call(obj, name, label, z.copy(), arg)
                call(obj, name, label, side_b.copy(), arg)
                rb = call(obj, name, label, z.copy(), arg)
                if rel(ra[0], rb[0]) > 1e-12 or np.abs(ra[1] - rb[1]).max() > 1e-12:
                    return (f'{label}: {name} depends on earlier calls: for z={z.tolist()}, arg={arg!r} it returns {ra[0]!r}, '
                            f'{ra[1].tolist()} right after the same solve for {side_a.tolist()} and {rb[0]!r}, {rb[1].tolist()} right '
                            f'after the one for {side_b.tolist()} (state kept on the object between calls)')
    # history independence: the first calls again, after everything else that was computed with these objects
    for name, o, a in CALLS:
        if name in first:
            obj, arg = (BP if o == 'B' else DP), (P if a == 'P' else T)
            r1 = call(obj, name, label, z.copy(), arg)
            r0 = first[name]
            if rel(r0[0], r1[0]) > 1e-7 or np.abs(r0[1] - r1[1]).max() > 1e-7:
                return (f'{label}: {name} depends on earlier calls: the same call gave {r0[0]!r} first and {r1[0]!r} when repeated '
                        f'(arg={arg!r}, z={z.tolist()})')
    return None

def resolve_T(case, chs):
    if case.get('T') is not None:
        return case['T']
    sp = case.get('Tspec')
    if sp is None:
        return None
    lo = max(c.Psat.Tmin for c in chs); hi = min(c.Psat.Tmax for c in chs)
    if sp[0] == 'lo': return lo + sp[1]
    if sp[0] == 'frac': return lo + sp[1] * (hi - lo)
    raise ValueError(sp)

def oracle(case):
    """The property evaluated directly on the implementation (real flexsolve).  Message or None."""
    e = env()
    eq = e['eq']
    kd = case['kind']
    if kd == 'real':
        _RAISE_IS_CLAUSE[0] = True
        try:
            return oracle_real(case)
        except Clause as c:
            return str(c)
        except ReferenceError:
            # numba's on-disk cache index of dew_point.gamma_iter (it takes a dispatcher argument) can be left unusable by a
            # concurrent process ("underlying object has vanished"); from here on this process calls it through its py_func
            gi = e['real_gamma_iter']
            e['real_gamma_iter'] = getattr(gi, 'py_func', gi)
            e['dpm'].gamma_iter = e['real_gamma_iter']
            try:
                return oracle_real(case)
            except Clause as c:
                return str(c)
        finally:
            _RAISE_IS_CLAUSE[0] = False
    return oracle_other(case)

def oracle_real(case):
    e = env()
    eq = e['eq']
    if True:
        r = real_env()
        chs = tuple(real_chem(i) for i in case['ids'])
        thermo = r[case['package']]
        ideal = case['package'] == 'ideal'
        perm = case['perm']
        chp = tuple(chs[i] for i in perm)
        BP, DP = eq.BubblePoint(chs, thermo), eq.DewPoint(chs, thermo)
        BPp, DPp = eq.BubblePoint(chp, thermo), eq.DewPoint(chp, thermo)
        label = f'{"/".join(case["ids"])} ({case["package"]})'
        m = instance_data((BP, DP, BPp, DPp), label)
        if m: return m
        T, P = resolve_T(case, chs), case.get('P')
        z = np.array(case['z'], float)
        if int((z > 0).sum()) == 0:
            return None
        zn = z / z.sum()
        lo = max(c.Psat.Tmin for c in chs); hi = min(c.Psat.Tmax for c in chs)
        Tprobe = T if T is not None else 0.5 * (lo + hi)
        Pprobe = P if P is not None else 101325.
        m = package_contracts(BP, DP, BPp, chs, zn, perm, Tprobe, Pprobe, label)   # before any solve
        if m: return m
        g_before = np.array(BP.gamma(zn.copy(), Tprobe), float) * np.ones(len(zn))
        strict = bool(case.get('strict_dew'))
        m = check_pair(BP, DP, chs, z, T, P, ideal, label, strict)
        if m: return m
        m = invariance(BP, DP, BPp, DPp, z, perm, case['k'], T, P, label, ideal=ideal, chs=chs, strict=strict)
        if m: return m
        g_after = np.array(BP.gamma(zn.copy(), Tprobe), float) * np.ones(len(zn))
        if not vclose(g_before, g_after):
            return (f'{label}: activity coefficients at the same (x, T) changed while bubble/dew points were computed: '
                    f'{g_before.tolist()} before, {g_after.tolist()} after')
        return None
def oracle_other(case):
    e = env()
    eq = e['eq']
    kd = case['kind']
    if kd in ('solve', 'history'):
        pk = case['pkg']
        if kd == 'solve':
            if case['via_call'] and not ((case['T'] is None) != (case['P'] is None) and (case['T'] or case['P'])):
                return None
            specs = [(np.array(case['z'], float), case.get('T'), case.get('P'))]
        else:
            cur = [list(b) for b in case['bufs']]
            specs = []
            for op in case['ops']:
                if op[0] == 'set':
                    cur[op[1]] = list(op[2])
                else:
                    _, w, i, a = op
                    specs.append((np.array(cur[i], float), None if w[0] == 'T' else a, a if w[0] == 'T' else None))
        cs, thermo = install(pk)
        n = len(cs)
        ideal = pk['G'] + pk['Phi'] + pk['PCF'] == 'iii'
        BP, DP = eq.BubblePoint(cs, thermo), eq.DewPoint(cs, thermo)
        perm = list(range(n))[::-1]
        # the stand-in Gamma/Phi/PCF read their parameters per chemical, so a permuted object is a permuted package
        BPp, DPp = eq.BubblePoint(tuple(cs[i] for i in perm), thermo), eq.DewPoint(tuple(cs[i] for i in perm), thermo)
        label = 'stub package ' + pk['G'] + pk['Phi'] + pk['PCF']
        m = instance_data((BP, DP, BPp, DPp), label)
        if m: return m
        for z, T, P in specs:
            if (z < 0).any() or int((z > 0).sum()) == 0:
                continue
            if P is not None and any(P > c['Pc'] for c in pk['chems']):
                continue
            try:
                with py_gamma_iter():
                    m = check_pair(BP, DP, cs, z, T, P, ideal, label) if ideal else None
                    if m: return m
                    m = invariance(BP, DP, BPp, DPp, z, perm, 3., T, P, label, ideal=ideal, chs=cs)
                    if m: return m
            except (RuntimeError, FloatingPointError, e['InfeasibleRegion']):
                continue          # real solver left the stand-in package's domain: nothing to compare
        return None
    if kd == 'cache':
        objs = []
        out = run_cache(case, keep=objs)
        m = instance_data(objs, 'constructor history')
        if m: return m
        seen = {}
        dflt = 'iii'
        news = []
        for op in case['ops']:
            if op[0] == 'default':
                dflt = op[1]
            else:
                news.append((op[1], op[2] if op[2] is not None else dflt, op[2] is None))
        for (idx, th, by_default), ok, i, d, pkc in zip(news, out['oks'], out['ids'], out['doms'], out['pks']):
            if ok != 'ok':
                if ok == 'wrong-IDs': return 'cached instance has the wrong IDs'
                continue
            want = [int(th[0] == 's'), int(th[1] == 's'), int(th[2] == 's')]
            if pkc != want:
                how = 'the default package of the session at that moment' if by_default else 'the package passed as thermo'
                return (f'{"BubblePoint" if case["cls"] == "B" else "DewPoint"}(chemicals{"" if by_default else ", thermo"}) returned an instance '
                        f'whose Gamma/Phi/PCF classes {pkc} are not those of {how} {want} (chemicals {list(idx)})')
            kk = (tuple(idx), th)
            if kk in seen and seen[kk] != (i, d):
                return (f'constructor call with the same key returned a different instance/domain: chemicals {list(idx)}, package {th} '
                        f'(the package is the one passed as thermo or, without thermo, the session default at that moment)')
            for k2, v2 in seen.items():
                if k2 != kk and v2[0] == i: return f'different keys {k2} and {kk} share one instance'
            seen[kk] = (i, d)
        return None
    return None

def finding_key(case, msg):
    if 'dew equation violated' in msg:
        # registered known finding C08:dew-equation = the dew solvers with a composition-dependent gamma returning a point that
        # does not satisfy its own equation; the same message for composition-independent K-values is a different defect
        nonideal = (case.get('package') in ('dortmund', 'unifac')) if case.get('kind') == 'real' else (case.get('pkg', {}).get('G') == 's')
        return 'C08:dew-equation' if nonideal else 'C08:dew-equation-ideal'
    if 'depends on the scale of z' in msg:
        for name in ('solve_Ty', 'solve_Tx', 'solve_Px', 'solve_Py'):
            if name in msg:
                return 'C08:scale:' + name
    for pat, key in (('depends on the order', 'perm'), ('not permuted with the chemical list', 'package-perm'),
                     ('change between two', 'package-state'), ('changed while', 'package-state'),
                     ('depends on earlier calls', 'history'), ('modified the composition array', 'caller-array'),
                     ('fall-back path', 'fallback-path'), ('error path', 'error-path'),
                     ('point computed', 'raises'), ('stale or foreign instance data', 'instance-data'), ('not those of its chemicals', 'instance-data'), ('are not those of', 'cache-package'),
                     ('share one instance', 'cache-identity'), ('same key returned', 'cache-identity'), ('Gamma.f', 'gamma-f-args'),
                     ('bubble equation violated', 'bubble-equation'),
                     ('differs from T =', 'PT-inverse'), ('differs from P =', 'TP-inverse'), ('exceeds', 'ordering'),
                     ('single component', 'single-component'), ('not normalised', 'normalised')):
        if pat in msg:
            return 'C08:' + key
    return 'C08:other'

# ------------------------------------------------------------------ real-chemical cases (regular stream and search)
TEMPLATES = ['plain', 'mixed-groups', 'edge', 'heavy', 'immiscible']
# water with organics it is only partially miscible with: with an activity-coefficient package the dew equation has a
# water-rich and an organic-rich liquid root, so anything that biases the solver (a guess kept from an earlier call) shows
ORGANICS = ['Toluene', 'Hexane', 'Benzene', 'EthylAcetate', 'Octanol', 'Octane', 'Butanol']
# low-volatility chemicals: at 260-300 K their dew pressures are a few Pa and below (the open pressure solver, which starts
# at P_guess and P_guess - 10, leaves the feasible region and the wrappers take their bounded fall-back)
HEAVY = ['Octane', 'Decane', 'Dodecane', 'Octanol', 'EthyleneGlycol', 'Toluene', 'Glycerol', 'Hexadecane']

def gen_real(rng, tpl=None, package=None):
    """One structured real-chemical case.  Templates: plain (chemicals the package describes), mixed-groups (two or more
    described chemicals plus chemicals without groups, in random order), edge (a specification close to the lower end of the
    chemicals' common vapour-pressure range)."""
    tpl = tpl or rng.choice(TEMPLATES)
    if tpl == 'plain':
        package = package or rng.choice(PACKAGES)
        # (a single chemical does not exercise an activity-coefficient package; those go to the ideal package)
        ids = rng.sample(GROUPED, rng.choice([1, 2, 2, 3, 3, 4, 5] if package == 'ideal' else [2, 3, 3, 4, 5]))
    elif tpl == 'mixed-groups':
        ids = rng.sample(GROUPED, rng.choice([2, 2, 3])) + rng.sample(GROUPLESS, rng.choice([1, 1, 2]))
        rng.shuffle(ids)
        package = package or rng.choice(['dortmund', 'dortmund', 'unifac', 'ideal'])
    elif tpl == 'heavy':
        ids = rng.sample(HEAVY, rng.choice([2, 2, 3]))
        package = package or rng.choice(PACKAGES)
    elif tpl == 'immiscible':
        ids = ['Water'] + rng.sample(ORGANICS, rng.choice([1, 1, 2]))
        rng.shuffle(ids)
        package = package or rng.choice(['dortmund', 'dortmund', 'unifac', 'ideal'])
    else:
        # chemicals whose correlations start within a few kelvin of each other, so that a specification just above the
        # common lower end is inside every chemical's range but within 10 K of the end of the object's VLE domain
        names = sorted(HIGH_TMIN)
        anchor = rng.choice(names)
        near = [n for n in names if n != anchor and abs(HIGH_TMIN[n] - HIGH_TMIN[anchor]) <= 8]
        ids = [anchor] + rng.sample(near, min(len(near), rng.choice([1, 1, 2])))
        rng.shuffle(ids)
        package = package or rng.choice(['ideal', 'ideal', 'ideal', 'dortmund', 'unifac'])
    m = len(ids)
    z = [rng.choice([0.25, 0.5, 1., 2., 3., 0.125, 0.05] if tpl != 'immiscible' else [0.35, 0.45, 0.55, 0.65, 1., 0.5]) for _ in range(m)]
    if m > 1 and rng.random() < 0.15:
        z[rng.randrange(m)] = rng.choice([0., 1e-6])
    if sum(1 for x in z if x > 0) == 0:
        z[0] = 1.
    perm = list(range(m)); rng.shuffle(perm)
    if m > 1 and perm == list(range(m)):
        perm = perm[1:] + perm[:1]
    c = {'kind': 'real', 'template': tpl, 'ids': ids, 'z': z, 'perm': perm, 'k': rng.choice([3., 0.5, 10., 1e-3, 4.]), 'package': package}
    if tpl == 'immiscible':
        if rng.random() < 0.7:
            c['P'] = float(rng.choice([5e4, 101325., 2e5, 5e5]))
        else:
            c['Tspec'] = ['frac', rng.choice([0.3, 0.45, 0.6])]
    elif tpl == 'heavy':
        c['Tspec'] = ['lo', rng.choice([1., 3., 8., 15., 25.])]
    elif tpl == 'edge':
        c['Tspec'] = ['lo', rng.choice([0.25, 1., 2., 0.5, 1.5, 5., 12., 25.])]
    elif tpl == 'mixed-groups' or rng.random() < 0.5:
        c['Tspec'] = ['frac', rng.choice([0.1, 0.25, 0.4, 0.55, 0.7])]
    else:
        c['P'] = float(rng.choice([5e3, 2e4, 5e4, 101325., 2e5, 5e5, 1e6]))
    return c

def search_cases(rng, tier):
    return [gen_real(rng) for _ in range(60 if tier == 'quick' else 600)]

CORPUS = [
    # section 5 item 23: composition handed to the temperature solvers unnormalised
    {'kind': 'real', 'ids': ['Water', 'Ethanol'], 'z': [0.5, 0.5], 'perm': [1, 0], 'k': 3., 'package': 'dortmund', 'P': 101325.},
    {'kind': 'real', 'ids': ['Water', 'Ethanol'], 'z': [0.5, 0.5], 'perm': [1, 0], 'k': 3., 'package': 'ideal', 'T': 350.},
]
# Known finding C08:dew-equation (C08_dew_equation_statement in Props.v): with a composition-dependent gamma the dew solvers return
# a point that does not satisfy the dew equation (the real flexsolve does not deliver the root / fixed-point contract there).
# Re-established on every run with the strict test that the regular stream gates.
WITNESSES = [
    {'key': 'C08:dew-equation',
     'case': {'kind': 'real', 'template': 'witness', 'ids': ['Water', 'Ammonia', 'Benzene'], 'z': [1.0, 3.0, 1.0], 'perm': [2, 1, 0],
              'k': 4.0, 'package': 'dortmund', 'T': 348.4613, 'strict_dew': True}},
]
