"""C09 — sparse flow arrays behave like the dense NumPy arrays they represent.
Correspondence harness (real SparseVector / SparseLogicalVector / SparseArray vs coq/C09/Model.v,
and NumPy vs the dense reference semantics of the model), generators, direct oracle."""
import os, itertools
import numpy as np
from fractions import Fraction as F
from vf import q, qlist, clist, cbool, cnat, copt, frac, fr_json

ID = 'C09'
COQ_DIR = 'C09'
COQ_HEADER = 'From V Require Import Common.Num C09.Model C09.Dense C09.Model3.\nOpen Scope Q_scope.'
MODEL_FILES = ('Model.v', 'Dense.v', 'Model3.v')
LEGACY = bool(os.environ.get('C09_LEGACY'))      # model of the unrepaired kernels (re-establishing DESIGN section 5 items 18, 19)
RULE = ('random histories of 4-30 operations over a store of 4-6 sparse objects (SparseVector sizes 1-6, SparseLogicalVector, '
        'SparseArray up to 3x6, float and boolean), values from {0, 1, -1, 1/2, -1/2, 2, -2, 3/2, 1024, 1/1024}; operations: '
        '+ - * / (binary, in-place, reflected) and == != > < >= <= and & ^ | with operands scalar / bool / list / ndarray 1-d and 2-d / '
        'sparse vector / logical vector / sparse array (including the object itself and length-1 operands), neg, abs, ~, copy, clear, '
        'setflags(0), to_array, get/set with int, tuple, list, mask, slice, [:] and (row, column) pairs, reductions any/all/sum/mean/'
        'max/min with axis and keepdims; plus (thorough) exhaustive enumeration over sizes <= 3 and alphabet {0, 1, -1, 1/2} of every '
        'operand kind x operator.  Executed on the real classes and on the Coq model: per-operation outcome (exception class, result '
        'kind, values) and the final store (sorted dict/set contents as cells, size, read_only) are compared, values to 1e-9 '
        'relative, structure exactly.  The same histories are run with NumPy on the dense images and compared with the dense '
        'reference semantics (run_np3 = np_step extended by np_extra3: 2-d block reads, writes into logical vectors, mean/max/min of '
        'logical vectors) of the model.  Sweeps of the second deepening round: every row selector x column selector block read, every '
        'index kind x value kind write into a logical vector, all reductions of logical vectors; python ints as indices incl. negative '
        'ones (reads, writes, slices with negative bounds, SparseArray a[k], a[k, j], a[[k...], j]) and a[:, ndarray], run through yrun / '
        'yrun_np of coq/C09/Model3.v.  non-trivial = at least one operation returned normally and changed or created '
        'an object with a non-zero entry; distinct = distinct case hash')
ASSUMPTIONS = ['float rounding, nan, inf and -0.0 are not modelled: inputs are dyadic, values compared to 1e-9 relative, branch decisions exact',
               'negative ints as SparseVector indices / slice bounds and as SparseArray row / column indices are modelled as the code treats them (coq/C09/Model3.v, part B; listed finding negative-index); negative steps and negative indices in writes to arrays are outside the model',
               'every row of a SparseArray has the same size and dtype (rows are only created by the library from rectangular input)',
               'results are compared with NumPy up to leading axes of length 1 (reduce_ndim drops them by design) and up to bool/float dtype (True = 1.0)',
               'theorems are about the source with pending_fixes/C09_1..C09_7 and C09_9 applied (model flags lg = false, legacy = false; the harness probes a[:, ndarray] and uses the legacy definition on a tree without C09_9); the kernels of the unrepaired source are kept (lg = true, C09_LEGACY=1) and their defects are stated as C09_legacy_* theorems',
               'refinement theorems cover + - * fully and / where NumPy returns; the statements refuted in Props.v (0/0, in-place resize, unchecked shapes/indices, read-only arrays) are known findings',
               'copy_like is generated only between objects of the same kind and shape (the method compares neither, and does not test read_only); '
               'in-place operators with a one-row 2-d operand are compared with NumPy after dropping that axis',
               'the history-refinement theorems cover the fragments fop / fop2 / fop3 (float vectors, row-wise float arrays, logical vectors incl. writes and all six reductions, 2-d block reads); the invariant, frame and rejection theorems cover every modelled operation']
TRUSTED = ['model coq/C09/Model.v is hand-written from thermosteam/base/sparse.py; tie = correspondence check on every run',
           'dense reference semantics coq/C09/Dense.v is hand-written from NumPy broadcasting/error rules; tie = the same operations run with NumPy on the dense images of the real operands and compared with np_step',
           'Python semantics transcribed by hand: dict iteration with resizing raises RuntimeError, zip() truncation, list slicing clips, truthiness of 0.0, lazy iteration of a vector assigned to itself',
           'harness abstraction of real objects to cells (sorted keys, keys outside the size reported as unrepresentable, aliasing via id())']

_env = {}
def env():
    if not _env:
        import thermosteam, sys  # sets np.seterr(divide='raise', invalid='raise')
        sp = sys.modules['thermosteam.base.sparse']
        _env.update({'sp': sp, 'SV': sp.SparseVector, 'SL': sp.SparseLogicalVector, 'SA': sp.SparseArray})
    return _env

# ------------------------------------------------------------------ building objects and operands
def build_obj(o):
    e = env()
    k = o[0]
    if k == 'v':
        how = o[3] if len(o) > 3 else 'list'
        vals = [float(x) for x in o[1]]
        if how == 'list': v = e['SV'](vals)
        elif how == 'nd': v = e['SV'](np.array(vals))
        elif how == 'dict': v = e['SV']({i: x for i, x in enumerate(vals)}, size=len(vals))
        elif how == 'sparse': v = e['sp'].sparse(vals)
        else: v = e['SV'](e['SV'](vals))
        if o[2]: v.setflags(0)
        return v
    if k == 'l':
        return e['SL']([bool(x) for x in o[1]])
    if k == 'a':
        how = o[2] if len(o) > 2 else 'list'
        rows = [[float(x) for x in r] for r in o[1]]
        if how == 'nd': return e['SA'](np.array(rows))
        if how == 'sparse': return e['sp'].sparse(rows)
        return e['SA'](rows)
    if k == 'b':
        return e['SA']([[bool(x) for x in r] for r in o[1]])
    raise ValueError(k)

def build_arg(a, store):
    k = a[0]
    if k == 'o': return store[a[1]]
    if k == 's': return float(a[1])
    if k == 'i': return int(a[1])
    if k == 'n0': return np.array(float(a[1]))
    if k == 'sb': return bool(a[1])
    if k == 'l': return [float(x) for x in a[1]]
    if k == 'n': return np.array([float(x) for x in a[1]], dtype=float)
    if k == 'bl': return [bool(x) for x in a[1]]
    if k == 'bn': return np.array([bool(x) for x in a[1]], dtype=bool)
    if k == 'l2': return [[float(x) for x in r] for r in a[1]]
    if k == 'n2': return np.array([[float(x) for x in r] for r in a[1]], dtype=float)
    if k == 'bn2': return np.array([[bool(x) for x in r] for r in a[1]], dtype=bool)
    raise ValueError(k)

def build_index(ix):
    k = ix[0]
    if k == 'i': return int(ix[1])
    if k == 't': return (int(ix[1]),)
    if k == 'li': return [int(x) for x in ix[1]]
    if k == 'ni': return np.array([int(x) for x in ix[1]], dtype=int)
    if k == 'm': return [bool(x) for x in ix[1]]
    if k == 'nm': return np.array([bool(x) for x in ix[1]], dtype=bool)
    if k == 'sl': return slice(ix[1], ix[2], ix[3])
    if k == 'o': return slice(None)
    raise ValueError(k)

_nd = {}
def nd_legacy():
    """probe of the tree under test: does a[:, <ndarray with two elements>] raise ValueError (source without pending_fixes/C09_9)?
    Selects the legacy flag of arrF_get_open_nd and whether the witness of the finding open-row-slice-with-ndarray-columns is replayed."""
    if 'v' not in _nd:
        try:
            env()['SA']([[1.0, 2.0]])[:, np.array([0, 1])]
            _nd['v'] = False
        except ValueError:
            _nd['v'] = True
    return _nd['v']

def build_zindex(ix):
    """python-int indices (possibly negative): ['zi', k] | ['zt', k] | ['zl', [k...]] | ['zn', [k...]] | ['zs', a, b, c]"""
    k = ix[0]
    if k == 'zi': return int(ix[1])
    if k == 'zt': return (int(ix[1]),)
    if k == 'zl': return [int(x) for x in ix[1]]
    if k == 'zn': return np.array([int(x) for x in ix[1]], dtype=int)
    if k == 'zs': return slice(ix[1], ix[2], ix[3])
    raise ValueError(k)

def build_zaindex(ax):
    if ax[0] == 'zrow': return int(ax[1])
    if ax[0] == 'zelem': return (int(ax[1]), int(ax[2]))
    if ax[0] == 'zcol': return ([int(k) for k in ax[1]], int(ax[2]))
    raise ValueError(ax[0])

def build_aindex(ax):
    if ax[0] == 'row': return build_index(ax[1])
    return (build_index(ax[1]), build_index(ax[2]))

# ------------------------------------------------------------------ snapshots
class Unrep(Exception):
    pass

def kind_of(x):
    e = env()
    if x.__class__ is e['SV']: return 'v'
    if x.__class__ is e['SL']: return 'l'
    if x.__class__ is e['SA']:
        for r in x.rows:
            return 'a' if r.__class__ is e['SV'] else 'b'
        return 'a'
    return None

def snap_vec(v):
    """cells of a SparseVector: list of None | 'n/d'.  Raises Unrep for a key outside range(size)."""
    d = v.dct
    n = v.size
    for k in d:
        if not (isinstance(k, (int, np.integer)) and 0 <= k < n):
            raise Unrep(f'key {k!r} outside range({n})')
    return [fr_json(frac(d[i])) if i in d else None for i in range(n)]

def snap_bits(v):
    s = v.set
    n = v.size
    for k in s:
        if not (isinstance(k, (int, np.integer)) and 0 <= k < n):
            raise Unrep(f'key {k!r} outside range({n})')
    return [i in s for i in range(n)]

def snap(x):
    k = kind_of(x)
    if k == 'v': return ['v', snap_vec(x), bool(x.read_only)]
    if k == 'l': return ['l', snap_bits(x)]
    if k == 'a': return ['a', [snap_vec(r) for r in x.rows], bool(x.rows and all(r.read_only for r in x.rows))]
    if k == 'b': return ['b', [snap_bits(r) for r in x.rows]]
    raise ValueError(type(x))

ERR = [(ValueError, 'EValue'), (IndexError, 'EIndex'), (KeyError, 'EKey'), (TypeError, 'EType'), (AttributeError, 'EType'),
       (ZeroDivisionError, 'EZeroDiv'), (FloatingPointError, 'EZeroDiv'), (RuntimeError, 'ERuntime')]
CRASH = ('EZeroDiv', 'ERuntime', 'EOther')
def err_class(ex):
    for c, n in ERR:
        if isinstance(ex, c): return n
    return 'EUnknown:' + type(ex).__name__

def obs_value(r):
    """observation of a non-sparse result"""
    if isinstance(r, (bool, np.bool_)): return ['bool', bool(r)]
    if isinstance(r, (int, float, np.integer, np.floating)): return ['scal', fr_json(frac(r))]
    if isinstance(r, np.ndarray):
        if r.ndim == 0:
            return ['bool', bool(r)] if r.dtype == bool else ['scal', fr_json(frac(r))]
        if r.ndim == 1:
            return ['denseb', [bool(x) for x in r]] if r.dtype == bool else ['dense', [fr_json(frac(x)) for x in r]]
        if r.ndim == 2:
            return (['denseb2', [[bool(x) for x in row] for row in r]] if r.dtype == bool
                    else ['dense2', [[fr_json(frac(x)) for x in row] for row in r]])
    raise ValueError(f'unexpected result {type(r).__name__}')

PYOP = {'add': '__add__', 'sub': '__sub__', 'mul': '__mul__', 'truediv': '__truediv__', 'eq': '__eq__', 'ne': '__ne__',
        'gt': '__gt__', 'lt': '__lt__', 'ge': '__ge__', 'le': '__le__', 'and': '__and__', 'xor': '__xor__', 'or': '__or__'}
import operator
BINF = {'add': operator.add, 'sub': operator.sub, 'mul': operator.mul, 'truediv': operator.truediv, 'eq': operator.eq,
        'ne': operator.ne, 'gt': operator.gt, 'lt': operator.lt, 'ge': operator.ge, 'le': operator.le,
        'and': operator.and_, 'xor': operator.xor, 'or': operator.or_}
IBINF = {'add': operator.iadd, 'sub': operator.isub, 'mul': operator.imul, 'truediv': operator.itruediv,
         'and': operator.iand, 'xor': operator.ixor, 'or': operator.ior}

def data_ids(x):
    k = kind_of(x)
    if k == 'v': return [id(x.dct)]
    if k == 'l': return [id(x.set)]
    return [id(r.dct) if kind_of(r) == 'v' else id(r.set) for r in x.rows]

def wants(op):
    """kinds of store objects an operation can be aimed at"""
    n = op[0]
    if n in ('aget', 'aset', 'zaget', 'agetnd'): return ('a',)
    if n == 'zget': return ('v', 'l')
    if n == 'zset': return ('v',)
    if n == 'conv':
        return {'sv': ('v', 'l'), 'svc': ('v', 'l'), 'SV': ('v', 'l'), 'SL': ('v', 'l'),
                'sa': ('a', 'b'), 'sac': ('a', 'b'), 'SA': ('a', 'b')}.get(op[1], ('v', 'l', 'a', 'b'))
    if n == 'copylike': return ('v', 'a')
    if n == 'fromflat': return ('v', 'a')
    if n == 'toflat': return ('v', 'l', 'a', 'b')
    if n in ('get', 'set'): return ('v', 'l')
    if n == 'un' and op[1] == 'invert': return ('l', 'b')
    if n == 'un' and op[1] == 'setro': return ('v', 'a')
    if n == 'un' and op[1] == 'clear': return ('v', 'a', 'b')
    if n == 'ibin' and not (op[3][0] in ('l2', 'n2', 'bn2') and len(op[3][1]) == 1):     # a one-row 2-d operand is reduced to 1-d
        k = op[3][0]
        if k in ('l2', 'n2'): return ('a',)
        if k == 'bn2': return ('b',) if op[1] in ('and', 'xor', 'or') else ('a', 'b')
    if n in ('bin', 'ibin') and op[1] in ('and', 'xor', 'or'): return ('l', 'b')
    if n == 'ibin':
        k = op[3][0]
        if k in ('s', 'i', 'n0', 'l', 'n', 'l2', 'n2'): return ('v', 'a')
    if n == 'red' and op[1] in ('sum', 'mean', 'max', 'min'): return ('v', 'l', 'a')
    return ('v', 'l', 'a', 'b')

def pick(store, raw, kinds):
    n = len(store)
    for d in range(n):
        j = (raw + d) % n
        if kind_of(store[j]) in kinds: return j
    return None

def resolve_op(store, op):
    """raw indices -> indices of suitable objects of the current store; None if no object fits"""
    op = [list(x) if isinstance(x, tuple) else x for x in op]
    n = op[0]
    pos = 3 if n == 'rbin' else (2 if n in ('bin', 'ibin', 'un', 'red', 'conv') else 1)
    i = pick(store, op[pos], wants(op))
    if i is None: return None
    op = list(op); op[pos] = i
    # operand objects
    ai = {'bin': 3, 'ibin': 3, 'set': 3, 'aset': 3, 'copylike': 2, 'zset': 3}.get(n)
    if ai is not None and op[ai][0] == 'o':
        kinds = op[ai][2] if len(op[ai]) > 2 else ('v', 'l', 'a', 'b')
        j = pick(store, op[ai][1], kinds)
        if j is None: return None
        op[ai] = ['o', j]
    if n == 'conv':
        k = kind_of(store[i]); how = op[1]
        code = {'sv': 'CIdent', 'sa': 'CIdent', 'sp': 'CIdent', 'spc': 'CIdent', 'svc': 'CCopy', 'sac': 'CCopy', 'SA': 'CCopy',
                'SV': 'CCopy' if k == 'v' else 'CFloat', 'SL': 'CCopy' if k == 'l' else 'CBool'}[how]
        op = op[:3] + [code]
    if n == 'copylike':
        x = store[i]
        if op[2][0] == 'view':
            if kind_of(x) != 'a': op[2] = ['o', i]
            else: op[2] = ['view', sorted(set(k % len(x.rows) for k in op[2][1]))]
        if op[2][0] == 'o' and not (len(op) > 3 and isinstance(op[-1], dict) and op[-1].get('raw')):
            y = store[op[2][1]]
            same = (kind_of(x) == 'v' and kind_of(y) in ('v', 'l') and y.size == x.size) or \
                   (kind_of(x) == 'a' and kind_of(y) in ('a', 'b') and len(y.rows) == len(x.rows) and y.vector_size == x.vector_size)
            if not same: return None          # copy_like compares neither kinds nor shapes: only same-shape sources are generated
        if isinstance(op[-1], dict): op = op[:-1]
    if n in ('toflat', 'fromflat'):
        x = store[i]
        size = int(x.size) if kind_of(x) in ('v', 'l') else len(x.rows) * int(x.vector_size)
        if op[2] is not None: op[2] = cyc(op[2], size, 0.0)
        elif n == 'fromflat': op[2] = [0.0] * size
    if n in ('zget', 'zset', 'zaget', 'agetnd'):
        x = store[i]
        op.append({'n': int(x.vector_size), 'm': len(x.rows) if hasattr(x, 'rows') else 0})
    if n in ('get', 'set', 'aget', 'aset'):
        x = store[i]
        sz = {'n': int(x.vector_size), 'm': len(x.rows) if hasattr(x, 'rows') else 0}
        if not (isinstance(op[-1], dict) and op[-1].get('raw')):
            # fit indices and value lengths to the object actually picked (the generator does not know its shape)
            if n in ('get', 'set'):
                op[2] = fit_index(op[2], sz['n'])
                if n == 'set': op[3] = fit_value(op[3], index_count(op[2], sz['n']))
            else:
                ax = op[2]
                if ax[0] == 'row':
                    op[2] = ['row', fit_index(ax[1], sz['m'])]
                    if n == 'aset' and op[3][0] in ('l2', 'n2'): op[3] = [op[3][0], [cyc(r, sz['n'], 0.0) for r in op[3][1]]]
                else:
                    mi, ni = fit_index(ax[1], sz['m']), fit_index(ax[2], sz['n'])
                    if n == 'aset' and op[3][0] in ('l2', 'n2') and mi[0] != 'i' and ni[0] not in ('i', 't'):
                        nc = index_count(ni, sz['n'])
                        op[3] = [op[3][0], [cyc(r, nc, 0.0) for r in op[3][1]]]
                    if mi[0] in ('li', 'ni') and ni[0] in ('li', 'ni'):
                        k = min(len(mi[1]), len(ni[1])); mi = [mi[0], mi[1][:k]]; ni = [ni[0], ni[1][:k]]
                    op[2] = ['pair', mi, ni]
        if isinstance(op[-1], dict): op = op[:-1]
        op.append(sz)
    return op

def cyc(l, k, fill):
    l = list(l)
    if not l: l = [fill]
    return [l[j % len(l)] for j in range(k)]

def fit_index(ix, size):
    k = ix[0]
    if size == 0: return ix
    if k in ('i', 't'): return [k, ix[1] % size]
    if k in ('li', 'ni'): return [k, [j % size for j in ix[1]]]
    if k in ('m', 'nm'): return [k, cyc(ix[1], size, False)]
    if k == 'sl':
        a, b, c = ix[1], ix[2], ix[3]
        return ['sl', None if a is None else min(a, size), None if b is None else min(b, size), c]
    return ix

def fit_value(v, cnt):
    if cnt is None: return v
    k = v[0]
    if k in ('l', 'n') and len(v[1]) not in (cnt, 1): return [k, cyc(v[1], cnt, 0.0)]
    if k in ('bl', 'bn') and len(v[1]) not in (cnt, 1): return [k, cyc(v[1], cnt, False)]
    return v

def exec_op(store, op):
    """run a resolved op on the real objects.  Returns (outcome, new object or None)."""
    e = env()
    n = op[0]
    if n == 'bin':
        x = store[op[2]]; a = build_arg(op[3], store)
        r = BINF[op[1]](x, a)
    elif n == 'ibin':
        x = store[op[2]]; a = build_arg(op[3], store)
        r = IBINF[op[1]](x, a)
        if r is not x: raise AssertionError('in-place operator returned another object')
        return ['unit'], None
    elif n == 'rbin':
        x = store[op[3]]; k = float(op[2])
        r = BINF[op[1]](k, x)
    elif n == 'un':
        x = store[op[2]]; u = op[1]
        if u == 'neg': r = -x
        elif u == 'abs': r = abs(x)
        elif u == 'invert': r = ~x
        elif u == 'copy': r = x.copy()
        elif u == 'clear':
            x.clear(); return ['unit'], None
        elif u == 'setro':
            x.setflags(0); return ['unit'], None
        elif u == 'toarray': r = x.to_array()
        else: raise ValueError(u)
    elif n == 'get':
        x = store[op[1]]; r = x[build_index(op[2])]
    elif n == 'set':
        x = store[op[1]]; x[build_index(op[2])] = build_arg(op[3], store); return ['unit'], None
    elif n == 'aget':
        x = store[op[1]]; r = x[build_aindex(op[2])]
        if r is x: return ['self'], None
        if kind_of(r): return ['new', snap(r)], None            # shares rows with the array: reported, not stored
        return obs_value(r), None
    elif n == 'aset':
        x = store[op[1]]; x[build_aindex(op[2])] = build_arg(op[3], store); return ['unit'], None
    elif n == 'red':
        x = store[op[2]]
        r = getattr(x, op[1])(axis=op[3], keepdims=op[4])
    elif n == 'zget':
        x = store[op[1]]; r = x[build_zindex(op[2])]
    elif n == 'zset':
        x = store[op[1]]; x[build_zindex(op[2])] = build_arg(op[3], store); return ['unit'], None
    elif n == 'zaget':
        x = store[op[1]]; r = x[build_zaindex(op[2])]
        if kind_of(r): return ['new', snap(r)], None            # the row object itself: reported, not stored
        return obs_value(r), None
    elif n == 'agetnd':                                         # a[:, n] with n an ndarray
        x = store[op[1]]; r = x[(slice(None), build_index(op[2]))]
        if r is x: return ['self'], None
        return obs_value(r), None
    elif n == 'conv':
        e = env(); sp = e['sp']; x = store[op[2]]; how = op[1]
        if how == 'sv': r = sp.sparse_vector(x)
        elif how == 'svc': r = sp.sparse_vector(x, copy=True)
        elif how == 'sa': r = sp.sparse_array(x)
        elif how == 'sac': r = sp.sparse_array(x, copy=True)
        elif how == 'sp': r = sp.sparse(x)
        elif how == 'spc': r = sp.sparse(x, copy=True)
        elif how == 'SV': r = e['SV'](x)
        elif how == 'SL': r = e['SL'](x)
        elif how == 'SA': r = e['SA'](x)
        else: raise ValueError(how)
    elif n == 'copylike':
        x = store[op[1]]
        other = store[op[2][1]] if op[2][0] == 'o' else x[[int(k) for k in op[2][1]]]
        x.copy_like(other); return ['unit'], None
    elif n == 'toflat':
        x = store[op[1]]
        if op[2] is None: r = x.to_flat_array()
        else:
            buf = np.array([float(v) for v in op[2]])
            r = x.to_flat_array(buf)
            if r is not buf: raise AssertionError('to_flat_array(buffer) did not return the buffer')
    elif n == 'fromflat':
        x = store[op[1]]; x.from_flat_array(np.array([float(v) for v in op[2]])); return ['unit'], None
    else:
        raise ValueError(n)
    if kind_of(r):
        if r is x: return ['self'], None
        return ['new', snap(r)], r
    return obs_value(r), None

def run_history(case, observe_np=False):
    store = [build_obj(o) for o in case['objs']]
    out = {'init': [snap(x) for x in store], 'ops': [], 'outs': [], 'aliased': None, 'unrep': None, 'np': [], 'frag': []}
    for raw in case['ops']:
        op = resolve_op(store, raw)
        if op is None: continue
        before = [snap(x) for x in store]
        out['np'].append(np_eval(store, op))
        out['frag'].append(in_fragment(store, op))
        try:
            o, new = exec_op(store, op)
        except AssertionError:
            raise
        except Exception as ex:
            o, new = ['err', err_class(ex)], None
        out['ops'].append(op)
        if new is not None:
            ids = set(i for x in store for i in data_ids(x))
            if any(i in ids for i in data_ids(new)) and out['aliased'] is None:
                out['aliased'] = f'op #{len(out["ops"]) - 1} {op}: the result shares its dict/set with an operand'
            store.append(new)
        try:
            now = [snap(x) for x in store]
        except Unrep as u:
            # a key outside the size was stored: the states of the model end here
            out['unrep'] = f'op #{len(out["ops"]) - 1} {op}: {u}'
            out['outs'].append(['err', 'EOther'])
            out['final'] = before
            return out
        out['outs'].append(o)
        if 'inexact' not in out and ((op[0] in ('bin', 'ibin', 'rbin') and op[1] in ARITH) or (op[0] == 'un' and op[1] in ('neg', 'abs'))):
            msg = exact_diff(op, o, out['np'][-1], now)
            if msg: out['inexact'] = f'op #{len(out["ops"]) - 1} {op}: {msg}'
        if o[0] == 'err' and o[1] in CRASH:
            out['final'] = before           # the target may be partly modified; history ends
            return out
        if o[0] == 'err' and now != before:
            out['partial'] = f'op #{len(out["ops"]) - 1} {op} raised {o[1]} after modifying an object'
    out['final'] = [snap(x) for x in store]
    return out

def exact_diff(op, o, ref, now):
    """elementwise + - * / are one IEEE operation in the sparse kernels and in NumPy: the values must be identical"""
    if o[0] == 'new' and ref[0] == 'new' and ref[1]: got, want = o[1], ref[1]
    elif o[0] == 'unit' and ref[0] == 'upd' and ref[1]: got, want = now[op[3] if op[0] == 'rbin' else op[2]], ref[1]
    else: return None
    def flat1(x):
        vals = x[1] if x[0] in ('v', 'l') else [v for r in x[1] for v in r]
        return [F(0) if v is None else (F(int(v)) if isinstance(v, bool) else F(v)) for v in vals]
    g, w = flat1(got), flat1(want)
    if len(g) != len(w) or g == w: return None
    if not all(abs(a - b) <= F(1, 10**9) * max(1, abs(a), abs(b)) for a, b in zip(g, w)): return None    # gross differences are reported by the value comparison
    k = [a != b for a, b in zip(g, w)].index(True)
    return f'element {k} is {float(g[k])!r}, NumPy gives {float(w[k])!r}'

def run_impl(case):
    return run_history(case)

# ------------------------------------------------------------------ Coq terms
def ccell(c):
    return 'None' if c is None else f'(Some {q(F(c))})'
def ccells(cs): return clist(cs, ccell)
def cbits(bs): return clist(bs, cbool)
def cobj(s):
    k = s[0]
    if k == 'v': return f'(OV {ccells(s[1])} {cbool(s[2])})'
    if k == 'l': return f'(OL {cbits(s[1])})'
    if k == 'a': return f'(OA {clist(s[1], ccells)} {cbool(s[2])})'
    if k == 'b': return f'(OB {clist(s[1], cbits)})'
    raise ValueError(k)
def cinit(o):
    k = o[0]
    if k == 'v': return f'(mkV {qlist(o[1])} {cbool(o[2])})'
    if k == 'l': return f'(mkL {cbits(o[1])})'
    if k == 'a': return f'(mkA {clist(o[1], qlist)})'
    if k == 'b': return f'(mkB {clist(o[1], cbits)})'
def carg(a):
    k = a[0]
    if k == 'o': return f'(AObj {cnat(a[1])})'
    if k in ('s', 'i', 'n0'): return f'(AScal {q(a[1])})'
    if k == 'sb': return f'(ABool {cbool(a[1])})'
    if k in ('l', 'n'): return f'(AArr {qlist(a[1])})'
    if k in ('bl', 'bn'): return f'(ABArr {cbits(a[1])})'
    if k in ('l2', 'n2') and not a[1]: return '(AArr [])'      # np.array([]) / [] : a value with no rows IS the empty 1-d value
    if k in ('l2', 'n2'): return f'(AArr2 {clist(a[1], qlist)})'
    if k == 'bn2': return f'(ABArr2 {clist(a[1], cbits)})'
    raise ValueError(k)
def cindex(ix, size=0):
    k = ix[0]
    if k == 'i': return f'(IInt {cnat(ix[1])})'
    if k == 't': return f'(ITup {cnat(ix[1])})'
    if k in ('li', 'ni'): return f'(IList {clist(ix[1], cnat)})'
    if k in ('m', 'nm'): return f'(IMask {cbits(ix[1])})'
    if k == 'sl' and ix[1] is None and ix[2] is None and ix[3] is None: return 'IOpen'
    if k == 'sl':
        return (f'(ISlice {cnat(0 if ix[1] is None else ix[1])} {cnat(size if ix[2] is None else ix[2])} '
                f'{cnat(1 if ix[3] is None else ix[3])})')
    if k == 'o': return 'IOpen'
    raise ValueError(k)
def caindex(ax, sz):
    if ax[0] == 'row': return f'(XRow {cindex(ax[1], sz["m"])})'
    return f'(XPair {cindex(ax[1], sz["m"])} {cindex(ax[2], sz["n"])})'
BOP = {'add': '(BA Add)', 'sub': '(BA Sub)', 'mul': '(BA Mul)', 'truediv': '(BA Div)', 'eq': '(BC CEq)', 'ne': '(BC CNe)',
       'gt': '(BC CGt)', 'lt': '(BC CLt)', 'ge': '(BC CGe)', 'le': '(BC CLe)', 'and': '(BL LAnd)', 'xor': '(BL LXor)', 'or': '(BL LOr)'}
AOP = {'add': 'Add', 'sub': 'Sub', 'mul': 'Mul', 'truediv': 'Div'}
RED = {'any': 'RAny', 'all': 'RAll', 'sum': 'RSum', 'mean': 'RMean', 'max': 'RMax', 'min': 'RMin'}
UN = {'neg': 'ONeg', 'abs': 'OAbs', 'invert': 'OInvert', 'copy': 'OCopy', 'clear': 'OClear', 'setro': 'OSetRO', 'toarray': 'OToArray'}
def cz(k): return f'({int(k)})%Z'
def czindex(ix, size):
    k = ix[0]
    if k == 'zi': return f'(ZInt {cz(ix[1])})'
    if k == 'zt': return f'(ZTup {cz(ix[1])})'
    if k in ('zl', 'zn'): return f'(ZList {clist(ix[1], cz)})'
    if k == 'zs':
        return f'(ZSlice {cz(0 if ix[1] is None else ix[1])} {cz(size if ix[2] is None else ix[2])} {cnat(1 if ix[3] is None else ix[3])})'
    raise ValueError(k)
def czaindex(ax):
    if ax[0] == 'zrow': return f'(ZRow {cz(ax[1])})'
    if ax[0] == 'zelem': return f'(ZElem {cz(ax[1])} {cz(ax[2])})'
    return f'(ZCol {clist(ax[1], cz)} {cz(ax[2])})'
def cyop(op):
    n = op[0]
    if n == 'zget': return f'(YGet {cnat(op[1])} {czindex(op[2], op[-1]["n"])})'
    if n == 'zset': return f'(YSet {cnat(op[1])} {czindex(op[2], op[-1]["n"])} {carg(op[3])})'
    if n == 'zaget': return f'(YAGet {cnat(op[1])} {czaindex(op[2])})'
    if n == 'agetnd': return f'(YAGetNd {cbool(nd_legacy())} {cnat(op[1])} {cindex(op[2], op[-1]["n"])})'
    return f'(YOp {cop(op)})'
def cop(op):
    n = op[0]
    if n == 'bin': return f'(XOp (OBin {BOP[op[1]]} {cnat(op[2])} {carg(op[3])}))'
    if n == 'ibin': return f'(XOp (OIBin {BOP[op[1]]} {cnat(op[2])} {carg(op[3])}))'
    if n == 'rbin': return f'(XOp (ORBin {AOP[op[1]]} {q(op[2])} {cnat(op[3])}))'
    if n == 'un': return f'(XOp ({UN[op[1]]} {cnat(op[2])}))'
    if n == 'get': return f'(XOp (OGet {cnat(op[1])} {cindex(op[2], op[-1]["n"])}))'
    if n == 'set': return f'(XOp (OSet {cnat(op[1])} {cindex(op[2], op[-1]["n"])} {carg(op[3])}))'
    if n == 'red': return f'(XOp (ORed {RED[op[1]]} {cnat(op[2])} {copt(op[3], cnat)} {cbool(op[4])}))'
    if n == 'conv': return f'(XOp (OConv {op[3]} {cnat(op[2])}))'
    if n == 'copylike':
        src = f'(CObj {cnat(op[2][1])})' if op[2][0] == 'o' else f'(CView {clist(op[2][1], cnat)})'
        return f'(XOp (OCopyLike {cnat(op[1])} {src}))'
    if n == 'toflat': return f'(XOp (OToFlat {cnat(op[1])} {copt(op[2], qlist)}))'
    if n == 'fromflat': return f'(XOp (OFromFlat {cnat(op[1])} {qlist(op[2])}))'
    if n == 'aget': return f'(XAGet {cnat(op[1])} {caindex(op[2], op[-1])})'
    if n == 'aset': return f'(XASet {cnat(op[1])} {caindex(op[2], op[-1])} {carg(op[3])})'
    raise ValueError(n)
def coutcome(o):
    k = o[0]
    if k == 'err': return f'(RErr {o[1]})' if not o[1].startswith('EUnknown') else '(RErr EInfeasible)'
    if k == 'new': return f'(RNew {cobj(o[1])})'
    if k == 'unit': return 'RUnit'
    if k == 'self': return 'RSelf'
    if k == 'scal': return f'(RScal {q(F(o[1]))})'
    if k == 'bool': return f'(RBool {cbool(o[1])})'
    if k == 'dense': return f'(RDense {qlist([F(x) for x in o[1]])})'
    if k == 'denseb': return f'(RDenseB {cbits(o[1])})'
    if k == 'dense2': return f'(RDense2 {clist(o[1], lambda r: qlist([F(x) for x in r]))})'
    if k == 'denseb2': return f'(RDenseB2 {clist(o[1], cbits)})'
    raise ValueError(k)

def coq_case(case, out):
    init = clist(case['objs'], cinit)
    zcase = bool(case.get('z'))
    ops = clist(out['ops'], cyop if zcase else cop)
    fin = clist(out['final'], cobj)
    outs = clist(out['outs'], coutcome)
    ok = (out['aliased'] is None or LEGACY) and 'inexact' not in out
    t = f'({"yrun_eqb" if zcase else "run_eqb"} {cbool(LEGACY)} {init} {ops} {fin} {outs} && {cbool(ok)}'
    # the initial store as observed must be what the model constructs
    t += f' && list_eqb obj_eqb {init} {clist(out["init"], cobj)}'
    if 'np' in out:
        t += ' && ' + np_term(case, out)
    return t + ')'

def coq_show(case, out):
    if case.get('z'): return f'(yrun {cbool(LEGACY)} {clist(case["objs"], cinit)} {clist(out["ops"], cyop)})'
    return f'(run {cbool(LEGACY)} {clist(case["objs"], cinit)} {clist(out["ops"], cop)})'

def nontrivial(case, out):
    return any(o[0] in ('new', 'unit') for o in out.get('outs', [])) and out.get('final') != out.get('init')

def classify(case, out):
    ks = []
    for op, o in zip(out.get('ops', []), out.get('outs', [])):
        name = op[0] + ':' + (op[1] if isinstance(op[1], str) else '')
        ks.append(f'op:{name}:{o[1] if o[0] == "err" else "ok"}')
    if out.get('unrep'): ks.append('unrepresentable-state')
    if out.get('aliased'): ks.append('aliased-result')
    return ks

# ------------------------------------------------------------------ generators
VALS = [F(0), F(1), F(-1), F(1, 2), F(-1, 2), F(2), F(-2), F(3, 2), F(1024), F(1, 1024)]
def gval(rng, pz=0.35):
    return 0.0 if rng.random() < pz else float(rng.choice(VALS[1:]))
def gvals(rng, n, pz=0.35): return [gval(rng, pz) for _ in range(n)]
def gbools(rng, n): return [rng.random() < 0.5 for _ in range(n)]

def gen_size(rng, n, malformed):
    r = rng.random()
    if r < 0.12: return 1
    if malformed and r < 0.45: return max(1, n + rng.choice([-1, 1, 2]))
    return n

def gen_arg(rng, n, m, opname, inplace, malformed, kinds=None):
    """operand for an arithmetic / comparison / logical operator"""
    logical = opname in ('and', 'xor', 'or')
    if logical:
        k = rng.choice(['o', 'o', 'sb', 'bl', 'bn', 'bn2'])
    else:
        k = rng.choice(['o', 'o', 'o', 's', 's', 'i', 'n0', 'sb', 'l', 'n', 'n', 'bl', 'l2', 'n2'])
    sz = gen_size(rng, n, malformed)
    pz = 0.15 if opname == 'truediv' else 0.35
    if k == 'o':
        a = ['o', rng.randrange(64)]
        if logical: a.append(['l', 'b'])
        return a
    if k in ('s', 'n0'): return [k, gval(rng, 0.2)]
    if k == 'i': return ['i', rng.choice([0, 1, 2, -1, 3])]
    if k == 'sb': return ['sb', rng.random() < 0.6]
    if k in ('l', 'n'): return [k, gvals(rng, sz, pz)]
    if k in ('bl', 'bn'): return [k, gbools(rng, sz)]
    rows = rng.choice([1, m, m, m + 1 if malformed else m])
    if k in ('l2', 'n2'): return [k, [gvals(rng, sz, pz) for _ in range(rows)]]
    return ['bn2', [gbools(rng, sz) for _ in range(rows)]]

def gen_index(rng, n, kinds=('i', 't', 'li', 'ni', 'm', 'nm', 'sl', 'o')):
    k = rng.choice(kinds)
    if k in ('i', 't'): return [k, rng.randrange(n)]
    if k in ('li', 'ni'): return [k, [rng.randrange(n) for _ in range(rng.randint(0, n))]]
    if k in ('m', 'nm'): return [k, gbools(rng, n)]
    if k == 'sl':
        a = rng.randint(0, n); b = rng.randint(a, n)
        return ['sl', rng.choice([None, a]), rng.choice([None, b]), rng.choice([None, 1, 2])]
    return ['o']

def index_count(ix, n):
    k = ix[0]
    if k in ('i', 't'): return None
    if k in ('li', 'ni'): return len(ix[1])
    if k in ('m', 'nm'): return sum(ix[1])
    if k == 'sl': return len(range(*slice(ix[1], ix[2], ix[3]).indices(n)))
    return n

def gen_setval(rng, cnt, malformed, objs=True):
    """value for vector __setitem__; cnt = number of selected positions (None: a single element)"""
    if cnt is None:
        k = rng.choice(['s', 's', 'i', 'sb', 'n0'] + (['l'] if malformed else []))
    else:
        k = rng.choice(['s', 's', 'l', 'n', 'l', 'bl'] + (['o'] if objs else []) + (['l2'] if malformed else []))
    if k in ('s', 'n0'): return [k, gval(rng)]
    if k == 'i': return ['i', rng.choice([0, 1, 2, -1])]
    if k == 'sb': return ['sb', rng.random() < 0.5]
    if k == 'o': return ['o', rng.randrange(64), ['v', 'l']]
    c = 2 if cnt is None else cnt
    if k in ('l', 'n'): return [k, gvals(rng, c)]
    if k == 'bl': return [k, gbools(rng, c)]
    return ['l2', [gvals(rng, c), gvals(rng, c)]]

ARITH = ['add', 'sub', 'mul', 'truediv']
CMPS = ['eq', 'ne', 'gt', 'lt', 'ge', 'le']
LOGI = ['and', 'xor', 'or']

def gen_op(rng, n, m, malformed):
    r = rng.random()
    if r < 0.22:
        name = rng.choice(ARITH + ARITH + LOGI)
        return ['bin', name, rng.randrange(64), gen_arg(rng, n, m, name, False, malformed)]
    if r < 0.46:
        name = rng.choice(ARITH + ARITH + ['sub'] + LOGI)
        return ['ibin', name, rng.randrange(64), gen_arg(rng, n, m, name, True, malformed)]
    if r < 0.54:
        name = rng.choice(CMPS)
        return ['bin', name, rng.randrange(64), gen_arg(rng, n, m, name, False, malformed)]
    if r < 0.59:
        return ['rbin', rng.choice(ARITH), gval(rng, 0.15), rng.randrange(64)]
    if r < 0.68:
        return ['un', rng.choice(['neg', 'abs', 'invert', 'copy', 'copy', 'clear', 'toarray'] + (['setro'] if malformed else [])),
                rng.randrange(64)]
    if r < 0.74:
        return ['get', rng.randrange(64), gen_index(rng, n)]
    if r < 0.84:
        ix = gen_index(rng, n)
        return ['set', rng.randrange(64), ix, gen_setval(rng, index_count(ix, n), malformed)]
    if r < 0.92:
        return ['red', rng.choice(list(RED)), rng.randrange(64), rng.choice([None, None, 0, 1, 1] + ([2] if malformed else [])),
                rng.random() < 0.4]
    if r < 0.935:
        k = rng.random()
        if k < 0.25:
            return ['conv', rng.choice(['sv', 'svc', 'SV', 'SL', 'sa', 'sac', 'sp']), rng.randrange(64)]
        if k < 0.5:
            src = ['o', rng.randrange(64)] if rng.random() < 0.7 else ['view', [rng.randrange(8) for _ in range(rng.randint(1, 3))]]
            return ['copylike', rng.randrange(64), src]
        if k < 0.85:
            return ['toflat', rng.randrange(64), rng.choice([None, [float(rng.choice(VALS[1:])) for _ in range(rng.randint(1, 4))]])]
        return ['fromflat', rng.randrange(64), gvals(rng, rng.randint(1, 6))]
    if r < 0.95:
        return ['aget', rng.randrange(64), gen_aindex(rng, n, m, False)]
    ax, val = gen_aset(rng, n, m, malformed)
    return ['aset', rng.randrange(64), ax, val]

def gen_aindex(rng, n, m, for_set):
    r = rng.random()
    if r < 0.3:
        return ['row', gen_index(rng, m, ('i', 'li', 'nm', 'm', 'sl', 'o'))]
    mk = rng.choice(['i', 'li', 'sl', 'o', 'nm'])
    if mk in ('sl', 'o'):
        nk = ('i', 'li', 'nm', 'sl', 'o') if for_set else ('i', 'li', 'm', 'sl', 'o')
    elif mk == 'i':
        nk = ('i', 'li', 'nm', 'sl', 'o')
    elif mk == 'nm':
        nk = ('sl', 'o')
    else:
        nk = ('i', 'li', 'sl', 'o')
    mi = gen_index(rng, m, (mk,)); ni = gen_index(rng, n, nk)
    if mk == 'li' and ni[0] == 'li':
        k = min(len(mi[1]), len(ni[1])); mi[1] = mi[1][:k]; ni[1] = ni[1][:k]
    return ['pair', mi, ni]

def gen_aset(rng, n, m, malformed):
    ax = gen_aindex(rng, n, m, True)
    def scal(): return ['s', gval(rng)]
    if ax[0] == 'row':
        mi = ax[1]
        if mi[0] in ('m', 'nm'):
            return ax, rng.choice([scal(), ['n2', [gvals(rng, n) for _ in range(m)]]])
        cnt = index_count(mi, m)
        opts = [scal(), ['l', gvals(rng, n)], ['n', gvals(rng, n)]]
        if cnt is None or mi[0] == 'o': opts.append(['o', rng.randrange(64), ['v', 'a'] if mi[0] == 'o' else ['v']])
        if cnt is not None: opts.append(['n2', [gvals(rng, n) for _ in range(cnt)]])
        return ax, rng.choice(opts)
    mi, ni = ax[1], ax[2]
    mc, nc = index_count(mi, m), index_count(ni, n)
    if mi[0] in ('sl', 'o'):
        if ni[0] in ('sl', 'o'):
            opts = [scal(), ['l', gvals(rng, nc)]]
            if not (mi[0] == 'sl' and ni[0] == 'o') or malformed: opts.append(['n2', [gvals(rng, nc) for _ in range(mc)]])
            if mi[0] == 'o' and ni[0] == 'o': opts.append(['o', rng.randrange(64), ['v', 'a']])
            return ax, rng.choice(opts)
        if nc is None:
            return ax, rng.choice([scal(), ['l', gvals(rng, mc)], ['n', gvals(rng, mc)]])
        return ax, rng.choice([scal(), ['l', gvals(rng, nc)], ['n2', [gvals(rng, nc) for _ in range(mc)]]])
    if mc is None:
        if nc is None: return ax, scal()
        opts = [scal(), ['l', gvals(rng, nc)]]
        if ni[0] == 'o': opts.append(['o', rng.randrange(64), ['v']])
        return ax, rng.choice(opts)
    if ni[0] in ('sl', 'o'):
        opts = [scal(), ['l', gvals(rng, nc)]]
        if mi[0] == 'li': opts.append(['n2', [gvals(rng, nc) for _ in range(mc)]])
        return ax, rng.choice(opts)
    return ax, rng.choice([scal(), ['l', gvals(rng, mc)], ['n', gvals(rng, mc)]])

def gen_history(rng, nops_max=30):
    malformed = rng.random() < 0.2
    n = rng.choice([1, 2, 3, 3, 4, 4, 5, 6]); m = rng.choice([1, 2, 2, 3, 3])
    objs = []
    nobj = rng.randint(4, 6)
    for k in range(nobj):
        kind = ['v', 'v', 'l', 'a'][k] if k < 4 else rng.choice(['v', 'v', 'l', 'a', 'b'])
        sz = gen_size(rng, n, malformed) if k != 0 else n
        if kind == 'v':
            objs.append(['v', gvals(rng, sz), malformed and rng.random() < 0.2, rng.choice(['list', 'list', 'nd', 'dict', 'sparse', 'copy'])])
        elif kind == 'l':
            objs.append(['l', gbools(rng, sz)])
        elif kind == 'a':
            rows = rng.choice([m, m, 1]) if k != 3 else m
            objs.append(['a', [gvals(rng, sz) for _ in range(rows)], rng.choice(['list', 'nd', 'sparse'])])
        else:
            objs.append(['b', [gbools(rng, sz) for _ in range(rng.choice([m, m, 1]))]])
    ops = [gen_op(rng, n, m, malformed) for _ in range(rng.randint(4, nops_max))]
    return {'objs': objs, 'ops': ops}

def readonly_sweep():
    """every in-place operator x every operand kind, every form of item assignment and clear() aimed at read-only objects"""
    T, Fa = True, False
    def operands(n, vals, bools):
        return [['s', 2.0], ['i', 2], ['n0', 2.0], ['sb', T], ['sb', Fa], ['l', vals], ['n', vals], ['bl', bools], ['bn', bools],
                ['o', 1, ['v']], ['o', 2, ['l']], ['o', 3, ['a']], ['l2', [vals]], ['n2', [vals]], ['o', 0, ['v']]]
    def sets(n):
        out = []
        for ix in (['i', 0], ['t', n - 1], ['li', list(range(n))], ['ni', [0]], ['m', [T] + [Fa] * (n - 1)], ['nm', [T] * n],
                   ['sl', 0, n, 1], ['sl', None, None, None], ['o']):
            cnt = index_count(ix, n)
            out.append(['set', 0, ix, ['s', 5.0], {'raw': True}])
            out.append(['set', 0, ix, ['s', 0.0], {'raw': True}])
            if cnt is not None: out.append(['set', 0, ix, ['l', [7.0] * cnt], {'raw': True}])
        out.append(['set', 0, ['o'], ['o', 1, ['v']], {'raw': True}])
        return out
    cases = []
    vals, bools = [2.0, 4.0, 8.0], [T, Fa, T]
    others = [['v', vals, False], ['l', bools], ['a', [[1.0, 2.0, 4.0]]]]
    body = [['ibin', name, 0, a] for name in ARITH for a in operands(3, vals, bools)] + sets(3) + [['un', 'clear', 0], ['un', 'toarray', 0]]
    cases.append({'objs': [['v', [1.0, -2.0, 0.5], True]] + others, 'ops': body})                              # read-only from the start
    cases.append({'objs': [['v', [1.0, 0.0, 0.5], False]] + others, 'ops': [['un', 'setro', 0]] + body})       # setflags(0) in the history
    cases.append({'objs': [['v', [3.0], True], ['v', vals, False], ['l', bools], ['a', [vals]]],               # length-1 target: resize branches
                  'ops': [['ibin', name, 0, a] for name in ARITH for a in operands(3, vals, bools)] + sets(1) + [['un', 'clear', 0]]})
    # read-only SparseArray: item assignment through the rows is rejected; in-place operators and clear() are not (listed finding)
    aops = [['un', 'setro', 0]]
    for name in ARITH:
        for a in (['s', 2.0], ['i', 2], ['sb', T], ['l', vals], ['n', vals], ['bl', [T, T, T]], ['o', 1, ['v']], ['o', 2, ['l']], ['o', 3, ['a']],
                  ['n2', [vals, vals]], ['o', 0, ['a']]):
            aops.append(['ibin', name, 0, a])
    for ax in (['row', ['i', 0]], ['row', ['o']], ['pair', ['i', 1], ['i', 2]], ['pair', ['o'], ['i', 0]], ['pair', ['i', 0], ['o']],
               ['pair', ['o'], ['o']], ['pair', ['li', [0, 1]], ['li', [1, 2]]], ['pair', ['sl', 0, 1, None], ['sl', 0, 2, None]]):
        aops.append(['aset', 0, ax, ['s', 9.0], {'raw': True}])
    aops += [['un', 'clear', 0], ['un', 'toarray', 0]]
    cases.append({'objs': [['a', [[1.0, 2.0, 4.0], [0.5, 0.0, -1.0]]], ['v', vals, False], ['l', [T, T, T]], ['a', [[1.0, 2.0, 4.0]]]], 'ops': aops})
    return cases

def shape_sweep(rng):
    """every operator with operands whose length cannot be broadcast, aimed at all-zero, full and mixed targets:
    both sides must reject (the test of the shapes must not depend on what is stored)"""
    T, Fa = True, False
    cases = []
    fill = lambda: float(rng.choice(VALS[1:]))
    for state in ('zero', 'full', 'mixed', 'cancelled'):
        def vec(n):
            if state == 'zero': return [0.0] * n
            if state == 'full' or state == 'cancelled': return [fill() for _ in range(n)]
            return [fill() if k % 2 == 0 else 0.0 for k in range(n)]
        for n, bad in ((3, (2, 4)), (2, (3, 5))):
            objs = [['v', vec(n), False], ['a', [vec(n), vec(n)]]]
            for b in bad:
                objs += [['v', [fill() for _ in range(b)], False], ['l', [T] * b], ['a', [[fill() for _ in range(b)]]],
                         ['a', [[fill() for _ in range(b)], [0.0] * b]]]
            ops = []
            if state == 'cancelled':            # entries removed by exact cancellation: x -= x, A -= A
                ops += [['ibin', 'sub', 0, ['o', 0]], ['ibin', 'sub', 1, ['o', 1]]]
            for tgt in (0, 1):
                for k, b in enumerate(bad):
                    base = 2 + 4 * k
                    args = [['o', base, ['v']], ['o', base + 1, ['l']], ['o', base + 2, ['a']], ['l', [fill() for _ in range(b)]],
                            ['n', [fill() for _ in range(b)]], ['bl', [T] * b], ['bn', [T] * b], ['n2', [[fill() for _ in range(b)]]]]
                    if tgt == 1: args += [['o', base + 3, ['a']], ['n2', [[fill() for _ in range(b)], [fill() for _ in range(b)]]]]
                    for name in ARITH + CMPS:
                        for a in args:
                            if name in ARITH: ops.append(['ibin', name, tgt, a])
                            ops.append(['bin', name, tgt, a])
            cases.append({'objs': objs, 'ops': ops})
    return cases

def helper_sweep(rng):
    """copy_like from the object itself / from selections of its own rows / from same-shape objects; to_flat_array into
    buffers holding other values (also after entries were removed); from_flat_array followed by to_flat_array"""
    T, Fa = True, False
    g = lambda k: [float(rng.choice(VALS[1:])) for _ in range(k)]
    cases = []
    for n, m in ((4, 3), (2, 2), (1, 2)):
        A = [[gval(rng) for _ in range(n)] for _ in range(m)]
        for r in A: r[0] = float(rng.choice(VALS[1:]))
        objs = [['v', [gval(rng, 0.2) for _ in range(n)], False], ['a', A], ['v', gvals(rng, n), False], ['a', [gvals(rng, n) for _ in range(m)]],
                ['b', [gbools(rng, n) for _ in range(m)]], ['l', gbools(rng, n)]]
        ops = [['copylike', 0, ['o', 0]], ['un', 'toarray', 0], ['copylike', 1, ['o', 1]], ['un', 'toarray', 1],
               ['copylike', 1, ['view', list(range(m))]], ['un', 'toarray', 1], ['copylike', 1, ['view', list(range(m - 1))]], ['un', 'toarray', 1]]
        if m > 2: ops += [['copylike', 1, ['view', [1, 2]]], ['un', 'toarray', 1]]
        ops += [['toflat', 1, None], ['toflat', 1, g(3)], ['toflat', 0, g(2)], ['toflat', 4, g(2)], ['toflat', 5, g(2)],
                ['aset', 1, ['pair', ['i', 0], ['i', 0]], ['s', 0.0]], ['toflat', 1, g(3)],
                ['ibin', 'sub', 1, ['o', 1]], ['toflat', 1, g(4)], ['ibin', 'mul', 0, ['s', 0.0]], ['toflat', 0, g(1)],
                ['fromflat', 1, g(n * m)], ['toflat', 1, g(2)], ['fromflat', 1, [0.0] * (n * m)], ['toflat', 1, g(2)],
                ['fromflat', 0, g(n)], ['toflat', 0, None],
                ['copylike', 0, ['o', 2]], ['copylike', 1, ['o', 3]], ['copylike', 1, ['o', 4]], ['copylike', 0, ['o', 5]],
                ['un', 'toarray', 0], ['un', 'toarray', 1]]
        cases.append({'objs': objs, 'ops': ops})
    return cases

def reduction_sweep(rng):
    """every reduction x axis x keepdims on arrays whose columns / rows cancel exactly, are all negative with an implicit
    zero, all positive with an implicit zero, full, or empty; on vectors of the same patterns; on boolean arrays"""
    a = float(rng.choice([F(1, 2), F(2), F(3, 2), F(1024)])); b = float(rng.choice([F(1), F(1, 1024), F(3)]))
    arrays = [
        [[a, -b, b, -a, 0.0, a], [-a, 0.0, 0.0, -b, 0.0, b], [0.0, -a, a, -a, 0.0, a + b]],      # cancelling / negative+implicit 0 / positive+implicit 0 / negative / empty / positive columns
        [[-a, -b, -a], [b, a, 0.0], [0.0, 0.0, 0.0], [a, -a, 0.0]],                               # rows: negative, positive with a zero, empty, cancelling
        [[-a, 0.0, b]], [[-b], [0.0], [b]], [[0.0, 0.0], [0.0, 0.0]],
    ]
    vectors = [[-a, -b], [-a, 0.0, -b], [a, 0.0, b], [a, -a], [0.0, 0.0], [-b], [0.0]]
    bools = [[[True, False, True], [True, True, False]], [[False, False]], [[True], [True]]]
    cases = []
    reds = [['red', name, 0, axis, keep] for name in RED for axis in (None, 0, 1) for keep in (False, True)]
    for A in arrays:
        cases.append({'objs': [['a', A]], 'ops': reds + [['ibin', 'sub', 0, ['o', 0]]] + reds})
    for v in vectors:
        cases.append({'objs': [['v', v, False]], 'ops': [r for r in reds if r[3] != 1] + [['red', 'max', 0, 1, False]]})
    for B in bools:
        cases.append({'objs': [['b', B]], 'ops': [r for r in reds if r[1] in ('any', 'all')]})
    cases.append({'objs': [['l', [True, False]], ['l', [False, False]], ['l', [True]]],
                  'ops': [['red', name, k, axis, keep] for k in (0, 1, 2) for name in RED for axis in (None, 0) for keep in (False, True)]})
    return cases

def rounding_sweep(rng):
    """elementwise * and / (binary, in-place, reflected, row-wise) with operands for which `x * (1/s)`, a different order of
    operations or an intermediate overflow would change the last bit: compared EXACTLY with NumPy"""
    E = [3.0, 0.3, 49.0, 0.1, 7.0, 1.0 / 3.0, 1.5, 0.001]
    S = [10.0, 3.0, 7.0, 49.0, 0.1, 1.5]
    cases = []
    for s0 in S:
        ev = rng.sample(E, 4)
        A = [rng.sample(E, 3), [0.0] + rng.sample(E, 2)]
        w = [float(rng.choice(S[:6])) for _ in range(4)]
        objs = [['v', ev, False], ['a', A], ['v', w, False], ['v', ev[:3], False]]
        ops = []
        for name in ('truediv', 'mul'):
            for arg in (['s', s0], ['n0', s0], ['l', [s0]], ['n', [s0]], ['o', 2, ['v']], ['l', w], ['n', w]):
                ops += [['bin', name, 0, arg], ['un', 'copy', 0], ['ibin', name, -1, arg]]
            ops += [['rbin', name, s0, 0], ['bin', name, 1, ['s', s0]], ['un', 'copy', 1], ['ibin', name, -1, ['s', s0]],
                    ['bin', name, 1, ['o', 3, ['v']]], ['un', 'copy', 1], ['ibin', name, -1, ['o', 3, ['v']]]]
        for i in (3, 10, 7, 49):
            ops += [['bin', 'truediv', 0, ['i', i]], ['un', 'copy', 0], ['ibin', 'truediv', -1, ['i', i]]]
        cases.append({'objs': objs, 'ops': ops})
    # a huge and a sub-normal divisor: 1/s underflows / overflows although x/s does not (few operations: the exact
    # rationals of such doubles are 300-digit numbers)
    for x, s0 in ((3.0, 1e300), (0.001, 1e-310)):
        cases.append({'objs': [['v', [x, 0.0], False], ['a', [[x, 0.0]]]],
                      'ops': [['ibin', 'truediv', 0, ['s', s0]], ['ibin', 'truediv', 1, ['n0', s0]]]})
    return cases

def slice_sweep(rng):
    """every slice with start / stop in {None, 0 .. n} and step in {None, 1, 2} (including the empty ones: stop = 0,
    start >= stop): get and set on vectors, logical vectors and (row and column slices of) arrays"""
    n = 3
    bounds = [None] + list(range(n + 1))
    slices = [['sl', a, b, c] for a in bounds for b in bounds for c in (None, 1, 2)]
    v = [float(rng.choice(VALS[1:])) for _ in range(n)]
    A = [[float(rng.choice(VALS[1:])) for _ in range(n)] for _ in range(n)]
    cases = []
    ops = []
    for sl in slices:
        ops += [['get', 0, sl, {'raw': True}], ['get', 1, sl, {'raw': True}]]
    cases.append({'objs': [['v', v, False], ['l', [True, False, True]]], 'ops': ops})
    for chunk in (slices[:len(slices) // 2], slices[len(slices) // 2:]):
        ops = []
        for sl in chunk:
            q = float(rng.choice(VALS[1:]))
            ops += [['un', 'copy', 0], ['set', -1, sl, ['s', q], {'raw': True}], ['un', 'copy', 1], ['set', -1, sl, ['sb', True], {'raw': True}]]
        cases.append({'objs': [['v', v, False], ['l', [False, False, False]]], 'ops': ops})
    ops = []
    for sl in slices:
        ops += [['aget', 0, ['pair', sl, ['i', 1]], {'raw': True}], ['aget', 0, ['pair', ['i', 1], sl], {'raw': True}],
                ['aget', 0, ['pair', sl, ['sl', 0, 2, None]], {'raw': True}], ['aget', 0, ['row', sl], {'raw': True}]]
    cases.append({'objs': [['a', A]], 'ops': ops})
    for chunk in (slices[:len(slices) // 2], slices[len(slices) // 2:]):
        ops = []
        for sl in chunk:
            q = float(rng.choice(VALS[1:]))
            ops += [['un', 'copy', 0], ['aset', -1, ['pair', sl, ['i', 0]], ['s', q], {'raw': True}],
                    ['un', 'copy', 0], ['aset', -1, ['pair', ['i', 2], sl], ['s', q], {'raw': True}],
                    ['un', 'copy', 0], ['aset', -1, ['row', sl], ['s', q], {'raw': True}]]
        cases.append({'objs': [['a', A]], 'ops': ops})
    return cases

def conv_sweep(rng):
    """conversion helpers and copy constructors; then the result and the original are modified in place and both are read:
    a requested copy must be independent, an identity conversion must be the object itself"""
    n = 3
    objs = [['v', gvals(rng, n, 0.2), False], ['v', gvals(rng, n, 0.2), True], ['l', gbools(rng, n)], ['a', [gvals(rng, n, 0.2) for _ in range(2)]],
            ['b', [gbools(rng, n) for _ in range(2)]]]
    ops = []
    for how, targets in (('sv', (0, 1, 2)), ('svc', (0, 1, 2)), ('SV', (0, 1, 2)), ('SL', (0, 2)), ('sa', (3, 4)), ('sac', (3, 4)), ('sp', (0, 2, 3, 4))):
        for t in targets:
            ops += [['conv', how, t]]
            if t in (0, 3):       # float objects that are not read-only: modify the result (or, for an identity conversion, the object) and read both
                ops += [['ibin', 'add', -1, ['s', 1.0]], ['un', 'toarray', t], ['ibin', 'mul', t, ['s', 2.0]], ['un', 'toarray', -1], ['un', 'toarray', t]]
            else:
                ops += [['un', 'toarray', -1], ['un', 'toarray', t]]
    return [{'objs': objs, 'ops': ops}]

def deep3_sweep(rng):
    """operations added to the all-histories fragment in the second deepening round: every 2-d block read (row selector x column
    selector with one of them a slice), every form of write into a logical vector, mean / max / min of logical vectors"""
    T, Fa = True, False
    A = [[float(rng.choice(VALS[1:])) if rng.random() < 0.7 else 0.0 for _ in range(4)] for _ in range(3)]
    rsl = [['o'], ['sl', None, None, None], ['sl', 0, 2, None], ['sl', 1, 3, 1], ['sl', 0, 3, 2], ['sl', 2, 2, None], ['sl', None, 1, None]]
    rli = [['li', [0, 2]], ['li', [2, 0, 1]], ['ni', [1]], ['li', [1, 1]], ['m', [T, Fa, T]], ['nm', [Fa, T, T]], ['nm', [Fa, Fa, Fa]]]
    csl = [['sl', 0, 2, None], ['sl', 1, 4, 2], ['sl', None, 3, None], ['sl', 3, 3, None], ['sl', 1, None, 1]]
    cli = [['li', [0, 3]], ['li', [3, 3, 1]], ['ni', [2]], ['m', [T, Fa, Fa, T]], ['nm', [Fa, T, T, T]], ['li', []]]
    ops = []
    def listed(ni):       # a[:, ndarray] is the (proposed) finding open-row-slice-with-ndarray-columns: python lists here, ndarrays in negative_sweep
        return [{'ni': 'li', 'nm': 'm'}.get(ni[0], ni[0])] + list(ni[1:])
    for mi in rsl:
        for ni in csl + cli: ops.append(['aget', 0, ['pair', mi, listed(ni) if mi[0] == 'o' or mi[1:] == [None, None, None] else ni], {'raw': True}])
    for mi in rli:
        for ni in csl: ops.append(['aget', 0, ['pair', mi, ni], {'raw': True}])
    cases = [{'objs': [['a', A]], 'ops': ops[:len(ops) // 2]}, {'objs': [['a', A]], 'ops': ops[len(ops) // 2:]},
             {'objs': [['a', A]], 'ops': [['ibin', 'sub', 0, ['o', 0]]] + ops[::3]}]
    # writes into logical vectors
    n = 4
    base = gbools(rng, n); other = gbools(rng, n)
    idxs = [['i', 0], ['t', 3], ['li', [0, 2]], ['ni', [3, 1, 0]], ['li', [1, 1]], ['li', []], ['m', [T, Fa, T, Fa]], ['nm', [Fa, Fa, Fa, Fa]],
            ['sl', 1, 3, None], ['sl', 0, 4, 2], ['sl', 2, 2, None], ['o'], ['sl', None, None, None]]
    ops = []
    for ix in idxs:
        cnt = index_count(ix, n)
        vals = [['s', 0.0], ['s', 2.0], ['sb', T], ['sb', Fa], ['i', -1], ['n0', 0.5]]
        if cnt is not None:
            vals += [['bl', gbools(rng, cnt)], ['bn', gbools(rng, cnt)], ['l', gvals(rng, cnt, 0.5)], ['n', gvals(rng, cnt, 0.5)], ['bl', [T]], ['l', [0.0]]]
            if cnt == n: vals.append(['o', 1, ['l']])
            if not (ix[0] == 'o' or (ix[0] == 'sl' and ix[1] is None and ix[2] is None)):
                vals.append(['bl', gbools(rng, cnt + 1)])          # wrong length (accepted by zip: listed finding; NumPy side rejects)
        for v in vals:
            ops += [['un', 'copy', 0], ['set', -1, ix, v, {'raw': True}]]
    k = len(ops) // 3
    k -= k % 2
    for chunk in (ops[:k], ops[k:2 * k], ops[2 * k:]):
        cases.append({'objs': [['l', base], ['l', other]], 'ops': chunk})
    # mean / max / min (and the others) of logical vectors
    reds = [['red', name, j, axis, keep] for j in (0, 1, 2, 3) for name in RED for axis in (None, 0) for keep in (False, True)]
    cases.append({'objs': [['l', [T, Fa, T]], ['l', [Fa, Fa]], ['l', [T, T]], ['l', [Fa]]], 'ops': reds})
    return cases

def negative_sweep(rng):
    """python ints as indices, negative ones included (coq/C09/Model3.v part B): reads of vectors and logical vectors with ints,
    tuples, int lists / arrays and slices with negative bounds; writes; SparseArray rows a[k], a[k, j], a[[k...], j]"""
    n = 4
    v = [float(rng.choice(VALS[1:])) for _ in range(n)]; v[rng.randrange(n)] = 0.0
    b = [True, False, True, True]
    ks = list(range(-n - 1, n + 1))
    ops = []
    for k in ks: ops += [['zget', 0, ['zi', k]], ['zget', 0, ['zt', k]], ['zget', 1, ['zi', k]]]
    ops += [['zget', 0, ['zl', [-1, 0, -n, n - 1]]], ['zget', 0, ['zn', [-2, -2, 1]]], ['zget', 0, ['zl', []]], ['zget', 1, ['zl', [-1, 2, -3]]]]
    for a0 in (-n - 1, -n, -2, -1, 0, 1, None):
        for b0 in (-n, -1, 0, 2, n, n + 1, None):
            if a0 is None and b0 is None: continue
            for c0 in (None, 2):
                ops.append(['zget', 0, ['zs', a0, b0, c0]])
            ops.append(['zget', 1, ['zs', a0, b0, None]])
    cases = [{'z': True, 'objs': [['v', v, False], ['l', b]], 'ops': ops}]
    # writes: a zero value (nothing is deleted) may be followed by other operations; a non-zero value stores the negative key and ends the history
    wz = []
    for ix in (['zi', -1], ['zt', -n], ['zl', [-1, 1]], ['zs', -2, n, None], ['zi', 2], ['zl', [0, -2, 3]]):
        wz += [['un', 'copy', 0], ['zset', -1, ix, ['s', 0.0]], ['un', 'toarray', -1]]
    wz += [['un', 'copy', 0], ['zset', -1, ['zl', [-1, 1]], ['l', [0.0, 7.0]]], ['un', 'toarray', -1],
           ['un', 'copy', 0], ['zset', -1, ['zi', 1], ['s', 5.0]], ['zset', -1, ['zl', [0, 3]], ['l', [2.0, 0.0]]], ['un', 'toarray', -1]]
    cases.append({'z': True, 'objs': [['v', v, False]], 'ops': wz})
    for ix, val in ((['zi', -1], ['s', 5.0]), (['zt', -n], ['s', 1.0]), (['zl', [1, -1]], ['l', [3.0, 4.0]]), (['zs', -1, n, None], ['s', 2.0]),
                    (['zi', -n - 1], ['s', 2.0]), (['zi', n], ['s', 2.0]), (['zl', [-2]], ['s', 0.5])):
        cases.append({'z': True, 'objs': [['v', v, False]], 'ops': [['zget', 0, ['zi', 0]], ['zset', 0, ix, val]]})
    # arrays
    A = [[float(rng.choice(VALS[1:])) for _ in range(3)] for _ in range(3)]; A[1][2] = 0.0
    aops = []
    for k in range(-4, 4):
        aops.append(['zaget', 0, ['zrow', k]])
        for j in (-3, -1, 0, 2, 3): aops.append(['zaget', 0, ['zelem', k, j]])
    for ksel in ([-1, 0], [-3, -3, 2], [0, -4], [], [1, 3]):
        for j in (0, 2, -1): aops.append(['zaget', 0, ['zcol', ksel, j]])
    cases.append({'z': True, 'objs': [['a', A]], 'ops': aops + [['ibin', 'mul', 0, ['s', 2.0]]] + aops[::4]})
    # a[:, n] with n an ndarray: ValueError as soon as n has two elements
    T, Fa = True, False
    cases.append({'z': True, 'objs': [['a', A]],
                  'ops': [['agetnd', 0, ix] for ix in (['ni', [2]], ['ni', [0, 2]], ['ni', [1, 1, 0]], ['nm', [T, Fa, T]], ['nm', [Fa, Fa, Fa]], ['ni', [0]])]})
    cases.append({'z': True, 'objs': [['a', [[1.0], [0.0]]]], 'ops': [['agetnd', 0, ['nm', [T]]], ['agetnd', 0, ['ni', [0]]], ['agetnd', 0, ['ni', [0, 0]]]]})
    return cases

def gen_cases(rng, tier):
    nrand = 260 if tier == 'quick' else 5000
    cases = (readonly_sweep() + shape_sweep(rng) + helper_sweep(rng) + reduction_sweep(rng) + rounding_sweep(rng) + slice_sweep(rng)
             + conv_sweep(rng) + deep3_sweep(rng)) + [gen_history(rng) for _ in range(nrand)]
    cases += small_scope(rng, tier)
    cases += negative_sweep(rng)        # last: their deviations from NumPy are the (proposed) finding negative-index
    return cases

def small_scope(rng, tier):
    """every operand kind x operator on vectors of size <= 3 over {0, 1, -1, 1/2}: exhaustive in thorough, a sample in quick"""
    A = [0.0, 1.0, -1.0, 0.5]
    cases = []
    sizes = [1, 2] if tier == 'quick' else [1, 2, 3]
    for n in sizes:
        vecs = [list(v) for v in itertools.product(A, repeat=n)]
        bvecs = [list(v) for v in itertools.product([False, True], repeat=n)]
        others = {}
        for k in sorted(set([1, n])):
            others[k] = [list(v) for v in itertools.product(A, repeat=k)]
        for name in ARITH + CMPS:
            for inplace in ([False] if name in CMPS else [False, True]):
                combos = []
                for v in vecs:
                    for k, ws in others.items():
                        for w in ws:
                            combos.append((v, w))
                if tier == 'quick':
                    combos = rng.sample(combos, min(len(combos), 6))
                elif n == 3:
                    combos = rng.sample(combos, min(len(combos), 400))
                # one history per chunk of combos: [v, w-as-vector, ...]; each combo exercises sparse, list, ndarray and scalar operands
                for v, w in combos:
                    objs = [['v', v, False], ['v', w, False], ['l', [bool(x) for x in w]], ['a', [w, v] if len(w) == len(v) else [w]]]
                    ops = []
                    tag = 'ibin' if inplace else 'bin'
                    for arg in (['o', 1, ['v']], ['l', w], ['n', w], ['o', 2, ['l']], ['o', 3, ['a']], ['s', w[0]], ['o', 0, ['v']]):
                        if inplace:
                            ops.append(['un', 'copy', 0])
                            ops.append([tag, name, -1, ['o', -1, ['v']] if arg == ['o', 0, ['v']] else arg])
                        else:
                            ops.append([tag, name, 0, arg])
                    cases.append({'objs': objs, 'ops': ops})
        for name in LOGI + ['add', 'mul', 'truediv'] + CMPS:
            combos = [(a, b) for a in bvecs for b in bvecs + [[False], [True]]]
            if tier == 'quick': combos = rng.sample(combos, min(len(combos), 3))
            for a, b in combos:
                objs = [['l', a], ['l', b], ['v', [float(x) for x in b], False]]
                ops = []
                for arg in (['o', 1, ['l']], ['bl', b], ['bn', b], ['sb', b[0]], ['o', 0, ['l']]):
                    ops.append(['bin', name, 0, arg])
                    if name not in CMPS:
                        ops.append(['un', 'copy', 0])
                        ops.append(['ibin', name, -1, ['o', -1, ['l']] if arg == ['o', 0, ['l']] else arg])
                cases.append({'objs': objs, 'ops': ops})
    return cases

# ------------------------------------------------------------------ NumPy on the dense images
def dense_of(x):
    a = x.to_array()
    k = kind_of(x)
    if k == 'v' and x.read_only: a.setflags(write=False)
    if k == 'a' and x.rows and all(r.read_only for r in x.rows): a.setflags(write=False)
    return a

def np_arg(a, store):
    if a[0] == 'o': return store[a[1]].to_array()
    return build_arg(a, store)

def np_obs(r):
    """observation of a NumPy result"""
    if isinstance(r, np.ndarray) and r.ndim >= 1:
        if r.ndim == 1:
            return ['l', [bool(x) for x in r]] if r.dtype == bool else ['v', [fr_json(frac(x)) for x in r]]
        return (['b', [[bool(x) for x in row] for row in r]] if r.dtype == bool
                else ['a', [[fr_json(frac(x)) for x in row] for row in r]])
    return None

def np_eval(store, op):
    """what NumPy does for this operation on the dense images of the current objects"""
    n = op[0]
    try:
        if n == 'bin':
            r = BINF[op[1]](dense_of(store[op[2]]), np_arg(op[3], store))
        elif n == 'ibin':
            x = dense_of(store[op[2]])
            a = np_arg(op[3], store)
            if x.ndim == 1 and np.ndim(a) == 2 and np.shape(a)[0] == 1: a = np.asarray(a)[0]    # reduce_ndim drops the leading axis by design
            r = IBINF[op[1]](x, a)
            return ['upd', np_obs(r)]
        elif n == 'rbin':
            r = BINF[op[1]](float(op[2]), dense_of(store[op[3]]))
        elif n == 'un':
            x = dense_of(store[op[2]]); u = op[1]
            if u == 'neg': r = -x
            elif u == 'abs': r = abs(x)
            elif u == 'invert': r = ~x
            elif u == 'copy': r = x.copy()
            elif u == 'clear':
                x[...] = 0; return ['upd', np_obs(x)]
            elif u == 'setro': return ['upd', np_obs(x)]
            elif u == 'toarray': return np_value(x)
        elif n in ('get', 'aget'):
            x = dense_of(store[op[1]])
            ix = build_index(op[2]) if n == 'get' else build_aindex(op[2])
            if n == 'get' and (op[2] == ['o'] or op[2] == ['sl', None, None, None]): return ['self']
            r = x[ix]
            return np_value(r)
        elif n in ('set', 'aset'):
            x = dense_of(store[op[1]])
            ix = build_index(op[2]) if n == 'set' else build_aindex(op[2])
            x[ix] = np_arg(op[3], store)
            return ['upd', np_obs(x)]
        elif n == 'red':
            r = getattr(dense_of(store[op[2]]), op[1])(axis=op[3], keepdims=op[4])
        elif n in ('zget', 'zaget'):
            x = dense_of(store[op[1]])
            r = x[build_zindex(op[2]) if n == 'zget' else build_zaindex(op[2])]
            if n == 'zaget' and op[2][0] == 'zrow': return ['new', np_obs(r)]
            return np_value(r)
        elif n == 'zset':
            x = dense_of(store[op[1]])
            x[build_zindex(op[2])] = np_arg(op[3], store)
            return ['upd', np_obs(x)]
        elif n == 'agetnd':
            return np_value(dense_of(store[op[1]])[:, build_index(op[2])])
        elif n == 'conv':
            x = store[op[2]].to_array()
            if op[1] in ('sv', 'sa', 'sp'): return ['self']              # np.asarray(a) is a
            if op[1] == 'SV': x = x.astype(float)
            if op[1] == 'SL': x = x.astype(bool)
            r = np.array(x, copy=True)
        elif n == 'copylike':
            x = dense_of(store[op[1]])
            if op[2][0] == 'o': b = store[op[2][1]].to_array()
            elif len(op[2][1]) == x.shape[0]: b = x[[int(k) for k in op[2][1]]]
            else: return ['skip']
            np.copyto(x, b, casting='unsafe'); return ['upd', np_obs(x)]
        elif n == 'toflat':
            return np_value(store[op[1]].to_array().flatten())
        elif n == 'fromflat':
            x = dense_of(store[op[1]]); x.flat[:] = np.array([float(v) for v in op[2]]); return ['upd', np_obs(x)]
        else:
            return ['skip']
    except Exception as ex:
        return ['err', err_class(ex)]
    if isinstance(r, np.ndarray) and r.ndim >= 1:
        return ['new', np_obs(r)]
    return np_value(r)

def np_value(r):
    if isinstance(r, np.ndarray) and r.ndim >= 1:
        o = np_obs(r)
        res = {'v': ['dense', o[1]], 'l': ['denseb', o[1]], 'a': ['dense2', o[1]], 'b': ['denseb2', o[1]]}[o[0]]
        if r.ndim == 2 and r.shape[0] == 0: res = res + [list(r.shape)]      # an empty list of rows has lost the column count
        return res
    if isinstance(r, (bool, np.bool_)) or (isinstance(r, np.ndarray) and r.dtype == bool): return ['bool', bool(r)]
    return ['scal', fr_json(frac(r))]

def in_fragment(store, op):
    """operations covered by np_step of coq/C09/Dense.v"""
    n = op[0]
    if n == 'toflat': return True
    if n == 'conv': return kind_of(store[op[2]]) == 'v' and op[3] in ('CIdent', 'CCopy') and op[1] != 'spc'
    if n == 'copylike':
        return kind_of(store[op[1]]) == 'v' and op[2][0] == 'o' and kind_of(store[op[2][1]]) == 'v'
    if n == 'agetnd': return False
    if n in ('zget', 'zset', 'zaget'):      # python-int indices: np_ystep of coq/C09/Model3.v
        if n == 'zset':
            a = op[3]
            if a[0] == 'o': return kind_of(store[a[1]]) in ('v', 'l')
            return a[0] in ('s', 'i', 'n0', 'sb', 'l', 'n', 'bl', 'bn')
        return True
    if n == 'aget':                         # 2-d block reads: np_extra3 of coq/C09/Model3.v
        ax = op[2]
        if ax[0] != 'pair' or kind_of(store[op[1]]) != 'a': return False
        def is_open(ix): return ix[0] == 'o' or (ix[0] == 'sl' and ix[1] is None and ix[2] is None and ix[3] is None)
        mk, nk = ax[1][0], ax[2][0]
        n_listlike = nk in ('li', 'ni', 'm', 'nm') or (nk == 'sl' and not is_open(ax[2]))
        if mk in ('sl', 'o') and n_listlike: return True
        return mk in ('li', 'ni', 'm', 'nm') and nk == 'sl' and not is_open(ax[2])
    pos = {'bin': 2, 'ibin': 2, 'rbin': 3, 'un': 2, 'get': 1, 'set': 1, 'red': 2}.get(n)
    if pos is None: return False
    t = kind_of(store[op[pos]])
    if t == 'l' and n == 'set':             # writes into a logical vector: np_extra3
        a = op[3]
        single = op[2][0] in ('i', 't')     # b[k] = <sequence of another length than 1>: NumPy's rule depends on the kind of sequence
        if a[0] == 'o': return kind_of(store[a[1]]) == 'l' and not (single and store[a[1]].size != 1)
        if a[0] in ('l', 'n', 'bl', 'bn') and single and len(a[1]) != 1: return False
        return a[0] in ('s', 'i', 'n0', 'sb', 'l', 'n', 'bl', 'bn')
    if t == 'l' and n == 'red' and op[1] in ('mean', 'max', 'min') and op[3] in (None, 0): return True
    if t == 'a':        # row-wise lifts: arithmetic with a vector / scalar / 1-d operand
        if n not in ('bin', 'ibin') or op[1] not in ARITH: return False
        a = op[3]
        if a[0] == 'o': return kind_of(store[a[1]]) in ('v', 'l', 'a')
        return a[0] in ('s', 'i', 'n0', 'sb', 'l', 'n', 'bl', 'bn')
    if t == 'l':        # logical vector with a logical vector
        if n not in ('bin', 'ibin') or op[1] not in ('add', 'mul', 'and', 'xor', 'or'): return False
        a = op[3]
        return a[0] == 'o' and kind_of(store[a[1]]) == 'l'
    if t != 'v': return False
    if n in ('bin', 'ibin') and op[1] in ('and', 'xor', 'or'): return False
    if n == 'un' and op[1] == 'invert': return False
    ai = {'bin': 3, 'ibin': 3, 'set': 3}.get(n)
    if ai is not None:
        a = op[ai]
        if a[0] == 'o': return kind_of(store[a[1]]) in ('v', 'l')
        return a[0] in ('s', 'i', 'n0', 'sb', 'l', 'n', 'bl', 'bn')
    return True

def cdobj(o):
    if o is None: return None
    if o[0] == 'v': return f'(DV {qlist([F(x) for x in o[1]])} false)'
    if o[0] == 'l': return f'(DL {cbits(o[1])})'
    if o[0] == 'a': return f'(DA {clist(o[1], lambda r: qlist([F(x) for x in r]))} false)'
    return None
def cdoutcome(o):
    k = o[0]
    if k == 'skip': return 'DSkip'
    if k == 'err': return f'(DErr {o[1]})' if not o[1].startswith('EUnknown') else '(DErr EInfeasible)'
    if k in ('new', 'upd'):
        d = cdobj(o[1])
        return 'DSkip' if d is None else f'({"DNew" if k == "new" else "DUpd"} {d})'
    if k == 'self': return 'DSelf'
    if k == 'scal': return f'(DScal {q(F(o[1]))})'
    if k == 'bool': return f'(DBool {cbool(o[1])})'
    if k == 'dense': return f'(DDense {qlist([F(x) for x in o[1]])})'
    if k == 'denseb': return f'(DDenseB {cbits(o[1])})'
    return 'DSkip'
def cdoutcome3(o):
    if o[0] == 'dense2': return f'(D3Dense2 {clist(o[1], lambda r: qlist([F(x) for x in r]))})'
    return f'(D3 {cdoutcome(o)})'
def np_term(case, out):
    if case.get('z'):
        outs = [cdoutcome(o) if f else 'DSkip' for o, f in zip(out['np'], out['frag'])]
        return f'yrun_np_eqb {cbool(LEGACY)} {clist(case["objs"], cinit)} {clist(out["ops"], cyop)} {clist(outs)}'
    outs = [cdoutcome3(o) if f else '(D3 DSkip)' for o, f in zip(out['np'], out['frag'])]
    return f'run_np3_eqb {cbool(LEGACY)} {clist(case["objs"], cinit)} {clist(out["ops"], cop)} {clist(outs)}'

# ------------------------------------------------------------------ direct oracle: the property itself on the implementation
def fr(x): return F(x) if not isinstance(x, bool) else F(int(x))
def flat(o):
    """numeric content and shape of an observed object/value"""
    k = o[0]
    if k in ('v', 'l', 'dense', 'denseb'): return (len(o[1]),), [fr(x) if x is not None else F(0) for x in o[1]]
    if k in ('a', 'b', 'dense2', 'denseb2'):
        return (len(o[1]), len(o[1][0]) if o[1] else 0), [fr(x) if x is not None else F(0) for r in o[1] for x in r]
    if k in ('scal', 'bool'): return (), [fr(o[1])]
    raise ValueError(k)
def close(a, b):
    return len(a) == len(b) and all(abs(x - y) <= F(1, 10**9) * max(1, abs(x), abs(y)) for x, y in zip(a, b))

def invariant(store):
    """stored entries are exactly the non-zero elements, keys inside the size"""
    for k, x in enumerate(store):
        rows = x.rows if kind_of(x) in ('a', 'b') else [x]
        for r in rows:
            n = r.size
            if kind_of(r) == 'v':
                for i, v in r.dct.items():
                    if not (isinstance(i, (int, np.integer)) and 0 <= i < n): return f'invariant: object {k} stores key {i!r} outside range({n})'
                    if v == 0: return f'invariant: object {k} stores a zero at key {i}'
            else:
                if not isinstance(r.set, set): return f'invariant: object {k} keeps its true indices in a {type(r.set).__name__}, not a set'
                for i in r.set:
                    if not (isinstance(i, (int, np.integer)) and 0 <= i < n): return f'invariant: object {k} stores key {i!r} outside range({n})'
    return None

def opkind(store, op):
    n = op[0]
    pos = {'bin': 2, 'ibin': 2, 'rbin': 3, 'un': 2, 'get': 1, 'set': 1, 'red': 2, 'aget': 1, 'aset': 1, 'copylike': 1, 'toflat': 1, 'fromflat': 1, 'conv': 2,
           'zget': 1, 'zset': 1, 'zaget': 1, 'agetnd': 1}[n]
    t = kind_of(store[op[pos]])
    name = op[1] if isinstance(op[1], str) else ''
    ai = {'bin': 3, 'ibin': 3, 'set': 3, 'aset': 3, 'copylike': 2, 'zset': 3}.get(n)
    ak = ''
    if ai is not None:
        a = op[ai]
        ak = ('o-' + kind_of(store[a[1]]) + ('-self' if a[1] == op[pos] else '')) if a[0] == 'o' else a[0]
    return n, name, t, ak, pos

def has_negative(op):
    n = op[0]
    if n in ('zget', 'zset'):
        ix = op[2]
        if ix[0] in ('zi', 'zt'): return ix[1] < 0
        if ix[0] in ('zl', 'zn'): return any(k < 0 for k in ix[1])
        if ix[0] == 'zs': return any(k is not None and k < 0 for k in ix[1:3])
    if n == 'zaget':
        ax = op[2]
        ks = [ax[1]] if ax[0] == 'zrow' else ([ax[1], ax[2]] if ax[0] == 'zelem' else list(ax[1]) + [ax[2]])
        return any(k < 0 for k in ks)
    return False

_LAST = [None]
def oracle(case):
    """the property on the implementation; a complaint about an operation that uses a negative int as an index is tagged"""
    _LAST[0] = None
    msg = _oracle(case)
    if msg and _LAST[0] is not None and has_negative(_LAST[0]) and 'negative-index' not in msg:
        head, _, rest = msg.partition(': ')
        return f'{head}: negative-index: {rest}'
    return msg

def _oracle(case):
    try:
        store = [build_obj(o) for o in case['objs']]
    except Exception as ex:
        return f'construct: {type(ex).__name__}: {ex}'
    msg = invariant(store)
    if msg: return 'construct: ' + msg
    for k, (x, o) in enumerate(zip(store, case['objs'])):
        want = [fr(v) for v in (o[1] if o[0] in ('v', 'l') else [v for r in o[1] for v in r])]
        if flat(snap(x))[1] != want: return f'construct: object {k} does not represent its input'
    for x in store:
        msg = probe_readonly(x)
        if msg: return msg
    for raw in list(case['ops']) + [None]:
        if raw is None:
            for x in store:
                msg = probe_readonly(x)
                if msg: return msg
            break
        op = resolve_op(store, raw)
        if op is None: continue
        _LAST[0] = op
        n, name, t, ak, pos = opkind(store, op)
        tag = f'{n}:{name}:{t}:{ak}'
        ref = np_eval(store, op)
        pre_dense = [x.to_array() for x in store]
        pre_class = shape_class(store, op, pos, t) if n in ('bin', 'ibin') else ''
        before = [flat(snap(x)) for x in store]
        ro_target = (t == 'v' and store[op[pos]].read_only) or (t == 'a' and store[op[pos]].rows and all(r.read_only for r in store[op[pos]].rows))
        try:
            o, new = exec_op(store, op)
        except Exception as ex:
            o, new = ['err', err_class(ex)], None
        if new is not None:
            ids = set(i for x in store for i in data_ids(x))
            if any(i in ids for i in data_ids(new)):
                if n == 'conv' and op[1] == 'SA': return f'{tag}: constructor-shares-rows: SparseArray(A) wraps the row objects of A'
                return f'{tag}: shared-data: the result shares its dict/set with an operand'
            store.append(new)
        msg = invariant(store)
        if msg: return f'{tag}: {msg}'
        after = [flat(snap(x)) for x in store]
        mutator = n in ('ibin', 'set', 'aset', 'zset', 'copylike', 'fromflat') or (n == 'un' and op[1] in ('clear',))
        if n == 'copylike' and o[0] == 'unit':
            # copying from (a view of) itself is a no-op: rows whose source is the row itself keep their content
            if op[2][0] == 'o' and op[2][1] == op[pos] and after[op[pos]] != before[op[pos]]:
                return f'{tag}: copy-alias: x.copy_like(x) changed x'
            if op[2][0] == 'view':
                rows_b, rows_a = case_rows(before[op[pos]]), case_rows(after[op[pos]])
                for k, src in enumerate(op[2][1]):
                    if k < len(rows_b) and src == k and rows_a[k] != rows_b[k]:
                        return f'{tag}: copy-alias: a.copy_like(a[[...]]) changed row {k}, which was copied from itself'
        # in-place operations change only the target; everything else changes nothing
        for k in range(len(before)):
            if after[k] != before[k] and not (mutator and k == op[pos] and o[0] != 'err'):
                if o[0] == 'err' and k == op[pos]:
                    if o[1] in CRASH: continue
                    return f'{tag}: rejected-but-modified: raised {o[1]} after modifying the target'
                return f'{tag}: frame: object {k} changed'
        if ro_target and mutator and o[0] != 'err' and n not in ('copylike', 'fromflat'):   # copy_like / from_flat_array never test the flag (not part of the listed findings' witnesses)
            if t == 'v': return f'{tag}: read-only vector: {name or n} on a read-only SparseVector is accepted'
            return f'{tag}: read-only: write to a read-only array accepted'
        if ref[0] == 'skip': continue
        if o[0] == 'err' and o[1] in ('ERuntime', 'EKey') or (o[0] == 'err' and o[1].startswith('EUnknown')):
            return f'{tag}: raises {o[1]} (NumPy: {ref[0]})'
        if o[0] == 'err' and ref[0] == 'err':
            if o[1] in CRASH: return None if False else _stop(store)
            continue
        if ref[0] == 'err' and ref[1] == 'EType': continue        # NumPy's dtype rules for booleans (-, unary -, in-place /): no reference value
        if o[0] == 'err':
            if n == 'set' and op[2][0] in ('i', 't'): continue     # element = sequence: NumPy's own rule depends on the dtype
            return f'{tag}: raises {o[1]} where NumPy returns a result'
        if ref[0] == 'err':
            if ref[1] == 'EZeroDiv':
                with np.errstate(all='ignore'):
                    loose = np_eval(store_before_dense, op) if False else None
                return f'{tag}: {"logical " if t in ("l", "b") else ""}{zero_class(pre_dense, op)}: returns normally where NumPy raises FloatingPointError'
            if n in ('bin', 'ibin') and ref[1] == 'EValue':
                return f'{tag}: [{pre_class}] returns normally where NumPy raises EValue'
            return f'{tag}: returns normally where NumPy raises {ref[1]}'
        # both returned: compare dense images
        if n == 'conv' and o[0] == 'self' and ref[0] == 'new':
            return f'{tag}: copy-flag: sparse(x, copy=True) returned x itself (NumPy: np.array(a, copy=True) is a new array)'
        if o[0] == 'self' or ref[0] == 'self': continue
        if o[0] == 'unit':
            got = flat(snap(store[op[pos]]))
            if n == 'un' and op[1] == 'setro': continue
            want = flat(ref[1]) if ref[0] == 'upd' and ref[1] else None
        elif o[0] == 'new':
            got = flat(o[1]); want = flat(ref[1]) if ref[0] == 'new' and ref[1] else (flat(ref) if ref[0] in ('scal', 'bool', 'dense', 'denseb', 'dense2', 'denseb2') else None)
        else:
            got = flat(o); want = flat(ref) if ref[0] in ('scal', 'bool', 'dense', 'denseb', 'dense2', 'denseb2') else (flat(ref[1]) if ref[0] == 'new' and ref[1] else None)
        if want is None: continue
        def squeeze(sh):
            sh = tuple(sh)
            while len(sh) > 1 and sh[0] == 1: sh = sh[1:]
            return () if sh == (1,) else sh
        if squeeze(got[0]) != squeeze(want[0]):          # reduce_ndim drops leading axes of length 1 by design
            if len(got[1]) == len(want[1]) == 0:
                if n == 'aget' and ref[0] in ('dense2', 'denseb2') and len(ref) > 2 and ref[2][1] > 0 and len(got[0]) == 1:
                    return f'{tag}: empty-selection: a[rows, cols] with no selected row has shape {got[0]} where NumPy gives {tuple(ref[2])}'
                continue
            return f'{tag}: shape {got[0]} where NumPy gives {want[0]}'
        exact_op = (n in ('bin', 'ibin', 'rbin') and name in ARITH) or (n == 'un' and name in ('neg', 'abs', 'copy', 'toarray')) \
                   or n in ('get', 'aget', 'toflat', 'conv') or (n == 'red' and name in ('max', 'min', 'any', 'all'))
        if exact_op and close(got[1], want[1]) and got[1] != want[1]:
            k = [a != b for a, b in zip(got[1], want[1])].index(True)
            return (f'{tag}: rounding: element {k} is {float(got[1][k])!r} where NumPy gives {float(want[1][k])!r} '
                    f'(a single IEEE operation on both sides must agree exactly)')
        if not close(got[1], want[1]):
            if n == 'set' and ak.endswith('-self'):
                return f'{tag}: self-assignment: v[index] = v reads the values while they are being written (NumPy copies first)'
            return f'{tag}: values {[float(x) for x in got[1]][:8]} where NumPy gives {[float(x) for x in want[1]][:8]}'
    return None

def _stop(store):
    return None

def case_rows(fl):
    shape, vals = fl
    if len(shape) != 2: return [vals]
    return [vals[k * shape[1]:(k + 1) * shape[1]] for k in range(shape[0])]

def shape_class(store, op, pos, t):
    """why NumPy rejects the shapes of an operator call: the two listed deviations, or something else"""
    x = store[op[pos]]
    if (t in ('v', 'l') and x.size == 1) or (t in ('a', 'b') and x.vector_size == 1): return 'length-1 target'
    a = op[3]
    if t in ('a', 'b'):
        rows = None
        if a[0] == 'o' and kind_of(store[a[1]]) in ('a', 'b'): rows = len(store[a[1]].rows)
        elif a[0] in ('l2', 'n2', 'bn2'): rows = len(a[1])
        if rows is not None and rows != len(x.rows): return 'row-count'
    return 'lengths differ'

def ro_operands(n):
    e = env()
    one = [1.0] * n
    return [('float', 2.0), ('int', 2), ('0-d ndarray', np.array(2.0)), ('bool', True), ('list', [2.0] * n), ('ndarray', np.array([2.0] * n)),
            ('bool list', [True] * n), ('bool ndarray', np.array([True] * n)), ('SparseVector', e['SV'](one)),
            ('SparseLogicalVector', e['SL']([True] * n)), ('1-row SparseArray', e['SA']([one])), ('1-row 2-d ndarray', np.array([[2.0] * n]))]

def probe_readonly(x):
    """read_only => every mutator raises and the data is unchanged (tried on a read-only copy of a read-only vector)"""
    if kind_of(x) != 'v' or not x.read_only or x.size == 0: return None
    e = env()
    def fresh():
        c = x.copy(); c.setflags(0); return c
    n = x.size
    tries = []
    for name, f in IBINF.items():
        if name in ('and', 'xor', 'or'): continue         # float vectors: NumPy's TypeError comes first
        for kind, arg in ro_operands(n):
            tries.append((f'{name} with {kind}', (lambda c, f=f, arg=arg: f(c, arg))))
    for kind, ix in (('int', 0), ('tuple', (0,)), ('list', [0]), ('mask', [True] + [False] * (n - 1)), ('slice', slice(0, 1)), ('[:]', slice(None))):
        for vk, val in (('scalar', 3.0), ('zero', 0.0)):
            tries.append((f'setitem {kind} = {vk}', (lambda c, ix=ix, val=val: c.__setitem__(ix, val))))
    tries.append(('clear', lambda c: c.clear()))
    for what, f in tries:
        c = fresh(); before = dict(c.dct), c.size
        try:
            f(c)
            return f'ibin:{what.split()[0]}:v:probe: read-only vector: {what} on a read-only SparseVector is accepted'
        except ValueError:
            pass
        except Exception as ex:
            return f'ibin:{what.split()[0]}:v:probe: read-only vector: {what} raises {type(ex).__name__} instead of ValueError'
        if (dict(c.dct), c.size) != before:
            return f'ibin:{what.split()[0]}:v:probe: read-only vector: {what} was rejected but changed the data'
    return None

def zero_class(pre_dense, op):
    """x/0 with x != 0 somewhere ('nonzero/0') or only 0/0"""
    n = op[0]
    try:
        with np.errstate(all='ignore'):
            if n == 'rbin': r = float(op[2]) / pre_dense[op[3]].astype(float)
            else:
                a = op[3]
                b = pre_dense[a[1]] if a[0] == 'o' else np.asarray(build_arg(a, []))
                r = pre_dense[op[2]].astype(float) / np.asarray(b, dtype=float)
        return 'nonzero/0' if np.isinf(r).any() else '0/0'
    except Exception:
        return '0/0'

CLASSES = [
    ('negative-index', 'negative-index'),
    ('agetnd:', 'open-row-slice-with-ndarray-columns'),
    ('raises ERuntime', 'runtime-error'),
    ('constructor-shares-rows', 'constructor-shares-rows'),
    ('copy-flag', 'sparse-copy-flag-ignored'),
    ('empty-selection', 'empty-selection-shape'),
    ('shared-data', 'shared-data'),
    ('stores a zero', 'invariant-stored-zero'),
    ('outside range', 'invariant-key-out-of-range'),
    ('not a set', 'invariant-dict-as-set'),
    ('rejected-but-modified', 'rejected-but-modified'),
    ('read-only vector', 'read-only-vector-write-accepted'),
    ('read-only', 'read-only-write-accepted'),
    ('frame', 'frame'),
    ('rounding', 'result-not-bitwise-equal'),
    ('copy-alias', 'copy-like-alias-changes-data'),
    ('self-assignment', 'setitem-from-itself-reads-written-values'),
    ('logical nonzero/0', 'logical-nonzero-over-zero-accepted'),
    ('nonzero/0', 'nonzero-over-zero-accepted'),
    ('0/0', 'zero-over-zero-gives-zero'),
]
def finding_key(case, msg):
    for pat, key in CLASSES:
        if pat in msg: return 'C09:' + key
    head = msg.split(': ')[0].split(':')
    n = head[0]
    if 'where NumPy raises EValue' in msg or 'where NumPy raises EIndex' in msg:
        if n in ('bin', 'ibin') and '[lengths differ]' in msg:
            return 'C09:shape-mismatch-accepted:' + n          # not one of the listed deviations (length-1 target, row count)
        if n == 'bin' and '[length-1 target]' in msg: return 'C09:shape-mismatch-accepted:bin'
        return 'C09:' + {'ibin': 'inplace-target-resized-or-shape-not-checked', 'set': 'setitem-shape-not-checked',
                         'aset': 'setitem-shape-not-checked'}.get(n, 'shape-not-checked:' + n)
    if 'where NumPy returns a result' in msg: return 'C09:broadcast-not-supported:' + n
    if 'shape' in msg: return 'C09:result-shape:' + n
    if 'values' in msg: return 'C09:values:' + ':'.join(head[:3])
    return 'C09:' + ':'.join(head[:2])

# ------------------------------------------------------------------ regression corpus and witnesses
# minimised inputs of the defects repaired by pending_fixes/C09_1 .. C09_7 (they run first; on the repaired tree they pass)
CORPUS = [
    {'objs': [['v', [1.0, 0.0, 2.0], False]], 'ops': [['ibin', 'sub', 0, ['o', 0]]]},                                   # C09_1
    {'objs': [['a', [[1.0, 0.0], [0.0, 2.0]]]], 'ops': [['ibin', 'sub', 0, ['o', 0]]]},                                 # C09_1 (row-wise)
    {'objs': [['v', [1.0, 0.0, 2.0], False], ['v', [0.0, 1.0, 2.0], False]], 'ops': [['bin', 'truediv', 0, ['o', 1]]]},  # C09_2
    {'objs': [['v', [2.0], False], ['v', [1.0, 0.0, 4.0], False]], 'ops': [['ibin', 'truediv', 0, ['o', 1]]]},           # C09_3
    {'objs': [['v', [0.0], False], ['v', [1.0, 2.0, 3.0], False]],
     'ops': [['bin', 'truediv', 0, ['o', 1]], ['ibin', 'add', 2, ['s', 1.0]]]},                                          # C09_4
    {'objs': [['a', [[1.0, 0.0], [0.0, 0.0]]]], 'ops': [['red', 'any', 0, 1, True], ['bin', 'or', 1, ['sb', True]]]},    # C09_5
    {'objs': [['a', [[0.0, -1.0], [-2.0, 0.0]]]], 'ops': [['red', 'max', 0, None, True]]},                               # C09_6
    {'objs': [['v', [1.0, 2.0], False]], 'ops': [['set', 0, ['o'], ['l2', [[1.0, 2.0], [3.0, 4.0]]]]]},                  # C09_7
]
# witnesses of the refuted statements of coq/C09/Props.v (behaviour that is kept: proposed known findings)
WITNESSES = [
    {'key': 'C09:zero-over-zero-gives-zero',
     'case': {'objs': [['v', [0.0, 1.0], False], ['v', [0.0, 1.0], False]], 'ops': [['bin', 'truediv', 0, ['o', 1]]]}},
    {'key': 'C09:inplace-target-resized-or-shape-not-checked',
     'case': {'objs': [['v', [1.0], False], ['v', [1.0, 2.0, 3.0], False]], 'ops': [['ibin', 'add', 0, ['o', 1]]]}},
    {'key': 'C09:broadcast-not-supported:bin',
     'case': {'objs': [['v', [1.0], False], ['v', [], False]], 'ops': [['bin', 'add', 0, ['o', 1]]]}},
    {'key': 'C09:invariant-key-out-of-range',
     'case': {'objs': [['v', [0.0], False]], 'ops': [['set', 0, ['i', 3], ['s', 1.0], {'raw': True}]]}},
    {'key': 'C09:setitem-shape-not-checked',
     'case': {'objs': [['v', [0.0, 0.0, 0.0], False]], 'ops': [['set', 0, ['li', [0, 1, 2]], ['l', [5.0, 6.0]], {'raw': True}]]}},
    {'key': 'C09:read-only-write-accepted',
     'case': {'objs': [['a', [[1.0]]]], 'ops': [['un', 'setro', 0], ['ibin', 'add', 0, ['s', 1.0]]]}},
    {'key': 'C09:logical-nonzero-over-zero-accepted',
     'case': {'objs': [['l', [True]], ['l', [True, False]]], 'ops': [['bin', 'truediv', 0, ['o', 1]]]}},
    {'key': 'C09:shape-not-checked:bin',
     'case': {'objs': [['a', [[1.0], [2.0], [3.0]]]], 'ops': [['bin', 'add', 0, ['n2', [[1.0], [1.0]]]]]}},
    {'key': 'C09:values:aset::a',
     'case': {'objs': [['a', [[0.0, 0.0]]]], 'ops': [['aset', 0, ['row', ['m', [True]]], ['l', [5.0, 7.0]], {'raw': True}]]}},
]

def search_cases(rng, tier):
    return [gen_history(rng) for _ in range(150 if tier == 'quick' else 1500)]

def shrink(case):
    """drop operations while the oracle keeps failing with the same key"""
    msg = oracle(case)
    if not msg: return case
    key = finding_key(case, msg)
    ops = list(case['ops']); i = 0
    while i < len(ops):
        trial = dict(case, ops=ops[:i] + ops[i + 1:])
        m = oracle(trial)
        if m and finding_key(trial, m) == key: ops = trial['ops']
        else: i += 1
    return dict(case, ops=ops)

WITNESSES += [
    {'key': 'C09:broadcast-not-supported:ibin',
     'case': {'objs': [['a', [[1.0, 2.0], [3.0, 4.0]]]], 'ops': [['ibin', 'add', 0, ['n2', [[1.0], [2.0]]]]]}},
    {'key': 'C09:setitem-from-itself-reads-written-values',
     'case': {'objs': [['v', [1.0, 2.0], False]], 'ops': [['set', 0, ['li', [1, 0]], ['o', 0], {'raw': True}]]}},
    {'key': 'C09:result-shape:bin',
     'case': {'objs': [['a', [[1.0, 2.0, 3.0]]]], 'ops': [['bin', 'add', 0, ['n2', [[1.0, 1.0, 1.0], [2.0, 2.0, 2.0]]]]]}},
]

# witnesses of behaviour found in round 3 on the unchanged tree; each becomes active (is replayed on every run) as soon as its
# finding line is listed in known_findings.txt, so that the check passes before and re-establishes the finding after
PROPOSED_WITNESSES = [
    {'key': 'C09:broadcast-not-supported:aset',
     'case': {'objs': [['a', [[1.0, 2.0], [0.0, 3.0], [4.0, 0.0]]]],
              'ops': [['aset', 0, ['pair', ['sl', None, 2, None], ['o']], ['n2', [[5.0, 6.0], [7.0, 8.0]]], {'raw': True}]]}},
    {'key': 'C09:open-row-slice-with-ndarray-columns',
     'case': {'z': True, 'objs': [['a', [[1.0, 2.0]]]], 'ops': [['agetnd', 0, ['ni', [0, 1]]]]}},
    {'key': 'C09:negative-index',
     'case': {'z': True, 'objs': [['v', [1.0, 2.0], False]], 'ops': [['zget', 0, ['zi', -1]]]}},
    {'key': 'C09:constructor-shares-rows',
     'case': {'objs': [['a', [[1.0, 2.0], [0.0, 3.0]]]], 'ops': [['conv', 'SA', 0]]}},
    {'key': 'C09:sparse-copy-flag-ignored',
     'case': {'objs': [['v', [1.0, 2.0], False]], 'ops': [['conv', 'spc', 0]]}},
    {'key': 'C09:broadcast-not-supported:set',
     'case': {'objs': [['l', [False]]], 'ops': [['set', 0, ['li', []], ['l2', [[], []]], {'raw': True}]]}},
    {'key': 'C09:empty-selection-shape',
     'case': {'objs': [['a', [[1.0, 2.0], [0.0, 3.0]]]], 'ops': [['aget', 0, ['pair', ['sl', 0, 0, None], ['sl', 0, 2, None]], {'raw': True}]]}},
]
def _listed():
    import vf
    known = vf.load_known()
    return [w for w in PROPOSED_WITNESSES if (ID, w['key']) in known
            and not (w['key'] == 'C09:open-row-slice-with-ndarray-columns' and not nd_legacy())]      # repaired by pending_fixes/C09_9
WITNESSES += _listed()
