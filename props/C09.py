"""C09 — sparse flow arrays behave like the dense NumPy arrays they represent.
Correspondence harness (real SparseVector / SparseLogicalVector / SparseArray vs coq/C09/Model.v,
and NumPy vs the dense reference semantics of the model), generators, direct oracle."""
import os, itertools
import numpy as np
from fractions import Fraction as F
from vf import q, qlist, clist, cbool, cnat, copt, frac, fr_json

ID = 'C09'
COQ_DIR = 'C09'
COQ_HEADER = 'From V Require Import Common.Num C09.Model C09.Dense.\nOpen Scope Q_scope.'
MODEL_FILES = ('Model.v', 'Dense.v')
LEGACY = bool(os.environ.get('C09_LEGACY'))      # model of the unrepaired kernels (re-establishing DESIGN section 5 items 18, 19)
RULE = ('random histories of 4-30 operations over a store of 4-6 sparse objects (SparseVector sizes 1-6, SparseLogicalVector, '
        'SparseArray up to 3x6, float and boolean), values from {0, 1, -1, 1/2, -1/2, 2, -2, 3/2, 1024, 1/1024}; operations: '
        '+ - * / (binary, in-place, reflected) and == != > < >= <= and & ^ | with operands scalar / bool / list / ndarray 1-d and 2-d / '
        'sparse vector / logical vector / sparse array (including the object itself and length-1 operands), neg, abs, ~, copy, clear, '
        'setflags(0), to_array, get/set with int, tuple, list, mask, slice, [:] and (row, column) pairs, reductions any/all/sum/mean/'
        'max/min with axis and keepdims; plus (thorough) exhaustive enumeration over sizes <= 3 and alphabet {0, 1, -1, 1/2} of every '
        'operand kind x operator.  Executed on the real classes and on the Coq model: per-operation outcome (exception class, result '
        'kind, values) and the final store (sorted dict/set contents as cells, size, read_only) are compared, values to 1e-9 '
        'relative, structure exactly.  The same histories are run with NumPy on the dense images and compared with the dense '
        'reference semantics (np_run) of the model.  non-trivial = at least one operation returned normally and changed or created '
        'an object with a non-zero entry; distinct = distinct case hash')
ASSUMPTIONS = ['float rounding, nan, inf and -0.0 are not modelled: inputs are dyadic, values compared to 1e-9 relative, branch decisions exact',
               'indices are non-negative; negative indices and negative slice bounds/steps are outside the model',
               'every row of a SparseArray has the same size (rows are only created by the library from rectangular input)']
TRUSTED = ['model coq/C09/Model.v is hand-written from thermosteam/base/sparse.py; tie = correspondence check on every run',
           'dense reference semantics coq/C09/Dense.v is hand-written from NumPy broadcasting/error rules; tie = the same histories run with NumPy',
           'Python dict iteration-with-mutation rule (RuntimeError) as transcribed in isub_self']

_env = {}
def env():
    if not _env:
        import thermosteam, sys  # sets np.seterr(divide='raise', invalid='raise')
        sp = sys.modules['thermosteam.base.sparse']
        _env.update({'sp': sp, 'SV': sp.SparseVector, 'SL': sp.SparseLogicalVector, 'SA': sp.SparseArray})
    return _env

# ------------------------------------------------------------------ building objects and operands
def build_obj(o):
    e = env()
    k = o[0]
    if k == 'v':
        how = o[3] if len(o) > 3 else 'list'
        vals = [float(x) for x in o[1]]
        if how == 'list': v = e['SV'](vals)
        elif how == 'nd': v = e['SV'](np.array(vals))
        elif how == 'dict': v = e['SV']({i: x for i, x in enumerate(vals)}, size=len(vals))
        elif how == 'sparse': v = e['sp'].sparse(vals)
        else: v = e['SV'](e['SV'](vals))
        if o[2]: v.setflags(0)
        return v
    if k == 'l':
        return e['SL']([bool(x) for x in o[1]])
    if k == 'a':
        how = o[2] if len(o) > 2 else 'list'
        rows = [[float(x) for x in r] for r in o[1]]
        if how == 'nd': return e['SA'](np.array(rows))
        if how == 'sparse': return e['sp'].sparse(rows)
        return e['SA'](rows)
    if k == 'b':
        return e['SA']([[bool(x) for x in r] for r in o[1]])
    raise ValueError(k)

def build_arg(a, store):
    k = a[0]
    if k == 'o': return store[a[1]]
    if k == 's': return float(a[1])
    if k == 'i': return int(a[1])
    if k == 'n0': return np.array(float(a[1]))
    if k == 'sb': return bool(a[1])
    if k == 'l': return [float(x) for x in a[1]]
    if k == 'n': return np.array([float(x) for x in a[1]], dtype=float)
    if k == 'bl': return [bool(x) for x in a[1]]
    if k == 'bn': return np.array([bool(x) for x in a[1]], dtype=bool)
    if k == 'l2': return [[float(x) for x in r] for r in a[1]]
    if k == 'n2': return np.array([[float(x) for x in r] for r in a[1]], dtype=float)
    if k == 'bn2': return np.array([[bool(x) for x in r] for r in a[1]], dtype=bool)
    raise ValueError(k)

def build_index(ix):
    k = ix[0]
    if k == 'i': return int(ix[1])
    if k == 't': return (int(ix[1]),)
    if k == 'li': return [int(x) for x in ix[1]]
    if k == 'ni': return np.array([int(x) for x in ix[1]], dtype=int)
    if k == 'm': return [bool(x) for x in ix[1]]
    if k == 'nm': return np.array([bool(x) for x in ix[1]], dtype=bool)
    if k == 'sl': return slice(ix[1], ix[2], ix[3])
    if k == 'o': return slice(None)
    raise ValueError(k)

def build_aindex(ax):
    if ax[0] == 'row': return build_index(ax[1])
    return (build_index(ax[1]), build_index(ax[2]))

# ------------------------------------------------------------------ snapshots
class Unrep(Exception):
    pass

def kind_of(x):
    e = env()
    if x.__class__ is e['SV']: return 'v'
    if x.__class__ is e['SL']: return 'l'
    if x.__class__ is e['SA']:
        for r in x.rows:
            return 'a' if r.__class__ is e['SV'] else 'b'
        return 'a'
    return None

def snap_vec(v):
    """cells of a SparseVector: list of None | 'n/d'.  Raises Unrep for a key outside range(size)."""
    d = v.dct
    n = v.size
    for k in d:
        if not (isinstance(k, (int, np.integer)) and 0 <= k < n):
            raise Unrep(f'key {k!r} outside range({n})')
    return [fr_json(frac(d[i])) if i in d else None for i in range(n)]

def snap_bits(v):
    s = v.set
    n = v.size
    for k in s:
        if not (isinstance(k, (int, np.integer)) and 0 <= k < n):
            raise Unrep(f'key {k!r} outside range({n})')
    return [i in s for i in range(n)]

def snap(x):
    k = kind_of(x)
    if k == 'v': return ['v', snap_vec(x), bool(x.read_only)]
    if k == 'l': return ['l', snap_bits(x)]
    if k == 'a': return ['a', [snap_vec(r) for r in x.rows], bool(x.rows and all(r.read_only for r in x.rows))]
    if k == 'b': return ['b', [snap_bits(r) for r in x.rows]]
    raise ValueError(type(x))

ERR = [(ValueError, 'EValue'), (IndexError, 'EIndex'), (KeyError, 'EKey'), (TypeError, 'EType'), (AttributeError, 'EType'),
       (ZeroDivisionError, 'EZeroDiv'), (FloatingPointError, 'EZeroDiv'), (RuntimeError, 'ERuntime')]
CRASH = ('EZeroDiv', 'ERuntime', 'EOther')
def err_class(ex):
    for c, n in ERR:
        if isinstance(ex, c): return n
    return 'EUnknown:' + type(ex).__name__

def obs_value(r):
    """observation of a non-sparse result"""
    if isinstance(r, (bool, np.bool_)): return ['bool', bool(r)]
    if isinstance(r, (int, float, np.integer, np.floating)): return ['scal', fr_json(frac(r))]
    if isinstance(r, np.ndarray):
        if r.ndim == 0:
            return ['bool', bool(r)] if r.dtype == bool else ['scal', fr_json(frac(r))]
        if r.ndim == 1:
            return ['denseb', [bool(x) for x in r]] if r.dtype == bool else ['dense', [fr_json(frac(x)) for x in r]]
        if r.ndim == 2:
            return (['denseb2', [[bool(x) for x in row] for row in r]] if r.dtype == bool
                    else ['dense2', [[fr_json(frac(x)) for x in row] for row in r]])
    raise ValueError(f'unexpected result {type(r).__name__}')

PYOP = {'add': '__add__', 'sub': '__sub__', 'mul': '__mul__', 'truediv': '__truediv__', 'eq': '__eq__', 'ne': '__ne__',
        'gt': '__gt__', 'lt': '__lt__', 'ge': '__ge__', 'le': '__le__', 'and': '__and__', 'xor': '__xor__', 'or': '__or__'}
import operator
BINF = {'add': operator.add, 'sub': operator.sub, 'mul': operator.mul, 'truediv': operator.truediv, 'eq': operator.eq,
        'ne': operator.ne, 'gt': operator.gt, 'lt': operator.lt, 'ge': operator.ge, 'le': operator.le,
        'and': operator.and_, 'xor': operator.xor, 'or': operator.or_}
IBINF = {'add': operator.iadd, 'sub': operator.isub, 'mul': operator.imul, 'truediv': operator.itruediv,
         'and': operator.iand, 'xor': operator.ixor, 'or': operator.ior}

def data_ids(x):
    k = kind_of(x)
    if k == 'v': return [id(x.dct)]
    if k == 'l': return [id(x.set)]
    return [id(r.dct) if kind_of(r) == 'v' else id(r.set) for r in x.rows]

def wants(op):
    """kinds of store objects an operation can be aimed at"""
    n = op[0]
    if n in ('aget', 'aset'): return ('a',)
    if n in ('get', 'set'): return ('v', 'l')
    if n == 'un' and op[1] == 'invert': return ('l', 'b')
    if n == 'un' and op[1] == 'setro': return ('v', 'a')
    if n == 'un' and op[1] == 'clear': return ('v', 'a', 'b')
    if n == 'ibin':
        k = op[3][0]
        if k in ('l2', 'n2'): return ('a',)
        if k == 'bn2': return ('b',) if op[1] in ('and', 'xor', 'or') else ('a', 'b')
    if n in ('bin', 'ibin') and op[1] in ('and', 'xor', 'or'): return ('l', 'b')
    if n == 'ibin':
        k = op[3][0]
        if k in ('s', 'i', 'n0', 'l', 'n'): return ('v', 'a')
    if n == 'red' and op[1] in ('sum', 'mean', 'max', 'min'): return ('v', 'l', 'a')
    return ('v', 'l', 'a', 'b')

def pick(store, raw, kinds):
    n = len(store)
    for d in range(n):
        j = (raw + d) % n
        if kind_of(store[j]) in kinds: return j
    return None

def resolve_op(store, op):
    """raw indices -> indices of suitable objects of the current store; None if no object fits"""
    op = [list(x) if isinstance(x, tuple) else x for x in op]
    n = op[0]
    pos = 3 if n == 'rbin' else (2 if n in ('bin', 'ibin', 'un', 'red') else 1)
    i = pick(store, op[pos], wants(op))
    if i is None: return None
    op = list(op); op[pos] = i
    # operand objects
    ai = {'bin': 3, 'ibin': 3, 'set': 3, 'aset': 3}.get(n)
    if ai is not None and op[ai][0] == 'o':
        kinds = op[ai][2] if len(op[ai]) > 2 else ('v', 'l', 'a', 'b')
        j = pick(store, op[ai][1], kinds)
        if j is None: return None
        op[ai] = ['o', j]
    if n in ('get', 'set', 'aget', 'aset'):
        x = store[i]
        op.append({'n': int(x.vector_size), 'm': len(x.rows) if hasattr(x, 'rows') else 0})
    return op

def exec_op(store, op):
    """run a resolved op on the real objects.  Returns (outcome, new object or None)."""
    e = env()
    n = op[0]
    if n == 'bin':
        x = store[op[2]]; a = build_arg(op[3], store)
        r = BINF[op[1]](x, a)
    elif n == 'ibin':
        x = store[op[2]]; a = build_arg(op[3], store)
        r = IBINF[op[1]](x, a)
        if r is not x: raise AssertionError('in-place operator returned another object')
        return ['unit'], None
    elif n == 'rbin':
        x = store[op[3]]; k = float(op[2])
        r = BINF[op[1]](k, x)
    elif n == 'un':
        x = store[op[2]]; u = op[1]
        if u == 'neg': r = -x
        elif u == 'abs': r = abs(x)
        elif u == 'invert': r = ~x
        elif u == 'copy': r = x.copy()
        elif u == 'clear':
            x.clear(); return ['unit'], None
        elif u == 'setro':
            x.setflags(0); return ['unit'], None
        elif u == 'toarray': r = x.to_array()
        else: raise ValueError(u)
    elif n == 'get':
        x = store[op[1]]; r = x[build_index(op[2])]
    elif n == 'set':
        x = store[op[1]]; x[build_index(op[2])] = build_arg(op[3], store); return ['unit'], None
    elif n == 'aget':
        x = store[op[1]]; r = x[build_aindex(op[2])]
        if r is x: return ['self'], None
        if kind_of(r): return ['new', snap(r)], None            # shares rows with the array: reported, not stored
        return obs_value(r), None
    elif n == 'aset':
        x = store[op[1]]; x[build_aindex(op[2])] = build_arg(op[3], store); return ['unit'], None
    elif n == 'red':
        x = store[op[2]]
        r = getattr(x, op[1])(axis=op[3], keepdims=op[4])
    else:
        raise ValueError(n)
    if kind_of(r):
        if r is x: return ['self'], None
        return ['new', snap(r)], r
    return obs_value(r), None

def run_history(case, observe_np=False):
    store = [build_obj(o) for o in case['objs']]
    out = {'init': [snap(x) for x in store], 'ops': [], 'outs': [], 'aliased': None, 'unrep': None}
    for raw in case['ops']:
        op = resolve_op(store, raw)
        if op is None: continue
        before = [snap(x) for x in store]
        try:
            o, new = exec_op(store, op)
        except AssertionError:
            raise
        except Exception as ex:
            o, new = ['err', err_class(ex)], None
        out['ops'].append(op)
        if new is not None:
            ids = set(i for x in store for i in data_ids(x))
            if any(i in ids for i in data_ids(new)) and out['aliased'] is None:
                out['aliased'] = f'op #{len(out["ops"]) - 1} {op}: the result shares its dict/set with an operand'
            store.append(new)
        try:
            now = [snap(x) for x in store]
        except Unrep as u:
            # a key outside the size was stored: the states of the model end here
            out['unrep'] = f'op #{len(out["ops"]) - 1} {op}: {u}'
            out['outs'].append(['err', 'EOther'])
            out['final'] = before
            return out
        out['outs'].append(o)
        if o[0] == 'err' and o[1] in CRASH:
            out['final'] = before           # the target may be partly modified; history ends
            return out
        if o[0] == 'err' and now != before:
            out['partial'] = f'op #{len(out["ops"]) - 1} {op} raised {o[1]} after modifying an object'
    out['final'] = [snap(x) for x in store]
    return out

def run_impl(case):
    return run_history(case)

# ------------------------------------------------------------------ Coq terms
def ccell(c):
    return 'None' if c is None else f'(Some {q(F(c))})'
def ccells(cs): return clist(cs, ccell)
def cbits(bs): return clist(bs, cbool)
def cobj(s):
    k = s[0]
    if k == 'v': return f'(OV {ccells(s[1])} {cbool(s[2])})'
    if k == 'l': return f'(OL {cbits(s[1])})'
    if k == 'a': return f'(OA {clist(s[1], ccells)} {cbool(s[2])})'
    if k == 'b': return f'(OB {clist(s[1], cbits)})'
    raise ValueError(k)
def cinit(o):
    k = o[0]
    if k == 'v': return f'(mkV {qlist(o[1])} {cbool(o[2])})'
    if k == 'l': return f'(mkL {cbits(o[1])})'
    if k == 'a': return f'(mkA {clist(o[1], qlist)})'
    if k == 'b': return f'(mkB {clist(o[1], cbits)})'
def carg(a):
    k = a[0]
    if k == 'o': return f'(AObj {cnat(a[1])})'
    if k in ('s', 'i', 'n0'): return f'(AScal {q(a[1])})'
    if k == 'sb': return f'(ABool {cbool(a[1])})'
    if k in ('l', 'n'): return f'(AArr {qlist(a[1])})'
    if k in ('bl', 'bn'): return f'(ABArr {cbits(a[1])})'
    if k in ('l2', 'n2'): return f'(AArr2 {clist(a[1], qlist)})'
    if k == 'bn2': return f'(ABArr2 {clist(a[1], cbits)})'
    raise ValueError(k)
def cindex(ix, size=0):
    k = ix[0]
    if k == 'i': return f'(IInt {cnat(ix[1])})'
    if k == 't': return f'(ITup {cnat(ix[1])})'
    if k in ('li', 'ni'): return f'(IList {clist(ix[1], cnat)})'
    if k in ('m', 'nm'): return f'(IMask {cbits(ix[1])})'
    if k == 'sl' and ix[1] is None and ix[2] is None and ix[3] is None: return 'IOpen'
    if k == 'sl':
        return (f'(ISlice {cnat(0 if ix[1] is None else ix[1])} {cnat(size if ix[2] is None else ix[2])} '
                f'{cnat(1 if ix[3] is None else ix[3])})')
    if k == 'o': return 'IOpen'
    raise ValueError(k)
def caindex(ax, sz):
    if ax[0] == 'row': return f'(XRow {cindex(ax[1], sz["m"])})'
    return f'(XPair {cindex(ax[1], sz["m"])} {cindex(ax[2], sz["n"])})'
BOP = {'add': '(BA Add)', 'sub': '(BA Sub)', 'mul': '(BA Mul)', 'truediv': '(BA Div)', 'eq': '(BC CEq)', 'ne': '(BC CNe)',
       'gt': '(BC CGt)', 'lt': '(BC CLt)', 'ge': '(BC CGe)', 'le': '(BC CLe)', 'and': '(BL LAnd)', 'xor': '(BL LXor)', 'or': '(BL LOr)'}
AOP = {'add': 'Add', 'sub': 'Sub', 'mul': 'Mul', 'truediv': 'Div'}
RED = {'any': 'RAny', 'all': 'RAll', 'sum': 'RSum', 'mean': 'RMean', 'max': 'RMax', 'min': 'RMin'}
UN = {'neg': 'ONeg', 'abs': 'OAbs', 'invert': 'OInvert', 'copy': 'OCopy', 'clear': 'OClear', 'setro': 'OSetRO', 'toarray': 'OToArray'}
def cop(op):
    n = op[0]
    if n == 'bin': return f'(XOp (OBin {BOP[op[1]]} {cnat(op[2])} {carg(op[3])}))'
    if n == 'ibin': return f'(XOp (OIBin {BOP[op[1]]} {cnat(op[2])} {carg(op[3])}))'
    if n == 'rbin': return f'(XOp (ORBin {AOP[op[1]]} {q(op[2])} {cnat(op[3])}))'
    if n == 'un': return f'(XOp ({UN[op[1]]} {cnat(op[2])}))'
    if n == 'get': return f'(XOp (OGet {cnat(op[1])} {cindex(op[2], op[-1]["n"])}))'
    if n == 'set': return f'(XOp (OSet {cnat(op[1])} {cindex(op[2], op[-1]["n"])} {carg(op[3])}))'
    if n == 'red': return f'(XOp (ORed {RED[op[1]]} {cnat(op[2])} {copt(op[3], cnat)} {cbool(op[4])}))'
    if n == 'aget': return f'(XAGet {cnat(op[1])} {caindex(op[2], op[-1])})'
    if n == 'aset': return f'(XASet {cnat(op[1])} {caindex(op[2], op[-1])} {carg(op[3])})'
    raise ValueError(n)
def coutcome(o):
    k = o[0]
    if k == 'err': return f'(RErr {o[1]})' if not o[1].startswith('EUnknown') else '(RErr EInfeasible)'
    if k == 'new': return f'(RNew {cobj(o[1])})'
    if k == 'unit': return 'RUnit'
    if k == 'self': return 'RSelf'
    if k == 'scal': return f'(RScal {q(F(o[1]))})'
    if k == 'bool': return f'(RBool {cbool(o[1])})'
    if k == 'dense': return f'(RDense {qlist([F(x) for x in o[1]])})'
    if k == 'denseb': return f'(RDenseB {cbits(o[1])})'
    if k == 'dense2': return f'(RDense2 {clist(o[1], lambda r: qlist([F(x) for x in r]))})'
    if k == 'denseb2': return f'(RDenseB2 {clist(o[1], cbits)})'
    raise ValueError(k)

def coq_case(case, out):
    init = clist(case['objs'], cinit)
    ops = clist(out['ops'], cop)
    fin = clist(out['final'], cobj)
    outs = clist(out['outs'], coutcome)
    ok = (out['aliased'] is None or LEGACY)
    t = f'(run_eqb {cbool(LEGACY)} {init} {ops} {fin} {outs} && {cbool(ok)}'
    # the initial store as observed must be what the model constructs
    t += f' && list_eqb obj_eqb {init} {clist(out["init"], cobj)}'
    if 'np' in out:
        t += ' && ' + np_term(case, out)
    return t + ')'

def coq_show(case, out):
    return f'(run {cbool(LEGACY)} {clist(case["objs"], cinit)} {clist(out["ops"], cop)})'

def nontrivial(case, out):
    return any(o[0] in ('new', 'unit') for o in out.get('outs', [])) and out.get('final') != out.get('init')

def classify(case, out):
    ks = []
    for op, o in zip(out.get('ops', []), out.get('outs', [])):
        name = op[0] + ':' + (op[1] if isinstance(op[1], str) else '')
        ks.append(f'op:{name}:{o[1] if o[0] == "err" else "ok"}')
    if out.get('unrep'): ks.append('unrepresentable-state')
    if out.get('aliased'): ks.append('aliased-result')
    return ks

# ------------------------------------------------------------------ generators
VALS = [F(0), F(1), F(-1), F(1, 2), F(-1, 2), F(2), F(-2), F(3, 2), F(1024), F(1, 1024)]
def gval(rng, pz=0.35):
    return 0.0 if rng.random() < pz else float(rng.choice(VALS[1:]))
def gvals(rng, n, pz=0.35): return [gval(rng, pz) for _ in range(n)]
def gbools(rng, n): return [rng.random() < 0.5 for _ in range(n)]

def gen_size(rng, n, malformed):
    r = rng.random()
    if r < 0.12: return 1
    if malformed and r < 0.45: return max(1, n + rng.choice([-1, 1, 2]))
    return n

def gen_arg(rng, n, m, opname, inplace, malformed, kinds=None):
    """operand for an arithmetic / comparison / logical operator"""
    logical = opname in ('and', 'xor', 'or')
    if logical:
        k = rng.choice(['o', 'o', 'sb', 'bl', 'bn', 'bn2'])
    else:
        k = rng.choice(['o', 'o', 'o', 's', 's', 'i', 'n0', 'sb', 'l', 'n', 'n', 'bl', 'l2', 'n2'])
    sz = gen_size(rng, n, malformed)
    pz = 0.15 if opname == 'truediv' else 0.35
    if k == 'o':
        a = ['o', rng.randrange(64)]
        if logical: a.append(['l', 'b'])
        return a
    if k in ('s', 'n0'): return [k, gval(rng, 0.2)]
    if k == 'i': return ['i', rng.choice([0, 1, 2, -1, 3])]
    if k == 'sb': return ['sb', rng.random() < 0.6]
    if k in ('l', 'n'): return [k, gvals(rng, sz, pz)]
    if k in ('bl', 'bn'): return [k, gbools(rng, sz)]
    rows = rng.choice([1, m, m, m + 1 if malformed else m])
    if k in ('l2', 'n2'): return [k, [gvals(rng, sz, pz) for _ in range(rows)]]
    return ['bn2', [gbools(rng, sz) for _ in range(rows)]]

def gen_index(rng, n, kinds=('i', 't', 'li', 'ni', 'm', 'nm', 'sl', 'o')):
    k = rng.choice(kinds)
    if k in ('i', 't'): return [k, rng.randrange(n)]
    if k in ('li', 'ni'): return [k, [rng.randrange(n) for _ in range(rng.randint(0, n))]]
    if k in ('m', 'nm'): return [k, gbools(rng, n)]
    if k == 'sl':
        a = rng.randint(0, n); b = rng.randint(a, n)
        return ['sl', rng.choice([None, a]), rng.choice([None, b]), rng.choice([None, 1, 2])]
    return ['o']

def index_count(ix, n):
    k = ix[0]
    if k in ('i', 't'): return None
    if k in ('li', 'ni'): return len(ix[1])
    if k in ('m', 'nm'): return sum(ix[1])
    if k == 'sl': return len(range(*slice(ix[1], ix[2], ix[3]).indices(n)))
    return n

def gen_setval(rng, cnt, malformed, objs=True):
    """value for vector __setitem__; cnt = number of selected positions (None: a single element)"""
    if cnt is None:
        k = rng.choice(['s', 's', 'i', 'sb', 'n0'] + (['l'] if malformed else []))
    else:
        k = rng.choice(['s', 's', 'l', 'n', 'l', 'bl'] + (['o'] if objs else []) + (['l2'] if malformed else []))
    if k in ('s', 'n0'): return [k, gval(rng)]
    if k == 'i': return ['i', rng.choice([0, 1, 2, -1])]
    if k == 'sb': return ['sb', rng.random() < 0.5]
    if k == 'o': return ['o', rng.randrange(64), ['v', 'l']]
    c = 2 if cnt is None else cnt
    if k in ('l', 'n'): return [k, gvals(rng, c)]
    if k == 'bl': return [k, gbools(rng, c)]
    return ['l2', [gvals(rng, c), gvals(rng, c)]]

ARITH = ['add', 'sub', 'mul', 'truediv']
CMPS = ['eq', 'ne', 'gt', 'lt', 'ge', 'le']
LOGI = ['and', 'xor', 'or']

def gen_op(rng, n, m, malformed):
    r = rng.random()
    if r < 0.22:
        name = rng.choice(ARITH + ARITH + LOGI)
        return ['bin', name, rng.randrange(64), gen_arg(rng, n, m, name, False, malformed)]
    if r < 0.46:
        name = rng.choice(ARITH + ARITH + ['sub'] + LOGI)
        return ['ibin', name, rng.randrange(64), gen_arg(rng, n, m, name, True, malformed)]
    if r < 0.54:
        name = rng.choice(CMPS)
        return ['bin', name, rng.randrange(64), gen_arg(rng, n, m, name, False, malformed)]
    if r < 0.59:
        return ['rbin', rng.choice(ARITH), gval(rng, 0.15), rng.randrange(64)]
    if r < 0.68:
        return ['un', rng.choice(['neg', 'abs', 'invert', 'copy', 'copy', 'clear', 'toarray'] + (['setro'] if malformed else [])),
                rng.randrange(64)]
    if r < 0.74:
        return ['get', rng.randrange(64), gen_index(rng, n)]
    if r < 0.84:
        ix = gen_index(rng, n)
        return ['set', rng.randrange(64), ix, gen_setval(rng, index_count(ix, n), malformed)]
    if r < 0.92:
        return ['red', rng.choice(list(RED)), rng.randrange(64), rng.choice([None, None, 0, 1, 1] + ([2] if malformed else [])),
                rng.random() < 0.4]
    if r < 0.95:
        return ['aget', rng.randrange(64), gen_aindex(rng, n, m, False)]
    ax, val = gen_aset(rng, n, m, malformed)
    return ['aset', rng.randrange(64), ax, val]

def gen_aindex(rng, n, m, for_set):
    r = rng.random()
    if r < 0.3:
        return ['row', gen_index(rng, m, ('i', 'li', 'nm', 'm', 'sl', 'o'))]
    mk = rng.choice(['i', 'li', 'sl', 'o', 'nm'])
    if mk in ('sl', 'o'):
        nk = ('i', 'li', 'nm', 'sl', 'o') if for_set else ('i', 'li', 'm', 'sl', 'o')
    elif mk == 'i':
        nk = ('i', 'li', 'nm', 'sl', 'o')
    elif mk == 'nm':
        nk = ('sl', 'o')
    else:
        nk = ('i', 'li', 'sl', 'o')
    mi = gen_index(rng, m, (mk,)); ni = gen_index(rng, n, nk)
    if mk == 'li' and ni[0] == 'li':
        k = min(len(mi[1]), len(ni[1])); mi[1] = mi[1][:k]; ni[1] = ni[1][:k]
    return ['pair', mi, ni]

def gen_aset(rng, n, m, malformed):
    ax = gen_aindex(rng, n, m, True)
    def scal(): return ['s', gval(rng)]
    if ax[0] == 'row':
        mi = ax[1]
        if mi[0] in ('m', 'nm'):
            return ax, rng.choice([scal(), ['n2', [gvals(rng, n) for _ in range(m)]]])
        cnt = index_count(mi, m)
        opts = [scal(), ['l', gvals(rng, n)], ['n', gvals(rng, n)]]
        if cnt is None or mi[0] == 'o': opts.append(['o', rng.randrange(64), ['v', 'a'] if mi[0] == 'o' else ['v']])
        if cnt is not None: opts.append(['n2', [gvals(rng, n) for _ in range(cnt)]])
        return ax, rng.choice(opts)
    mi, ni = ax[1], ax[2]
    mc, nc = index_count(mi, m), index_count(ni, n)
    if mi[0] in ('sl', 'o'):
        if ni[0] in ('sl', 'o'):
            opts = [scal(), ['l', gvals(rng, nc)]]
            if not (mi[0] == 'sl' and ni[0] == 'o') or malformed: opts.append(['n2', [gvals(rng, nc) for _ in range(mc)]])
            if mi[0] == 'o' and ni[0] == 'o': opts.append(['o', rng.randrange(64), ['v', 'a']])
            return ax, rng.choice(opts)
        if nc is None:
            return ax, rng.choice([scal(), ['l', gvals(rng, mc)], ['n', gvals(rng, mc)]])
        return ax, rng.choice([scal(), ['l', gvals(rng, nc)], ['n2', [gvals(rng, nc) for _ in range(mc)]]])
    if mc is None:
        if nc is None: return ax, scal()
        opts = [scal(), ['l', gvals(rng, nc)]]
        if ni[0] == 'o': opts.append(['o', rng.randrange(64), ['v']])
        return ax, rng.choice(opts)
    if ni[0] in ('sl', 'o'):
        opts = [scal(), ['l', gvals(rng, nc)]]
        if mi[0] == 'li': opts.append(['n2', [gvals(rng, nc) for _ in range(mc)]])
        return ax, rng.choice(opts)
    return ax, rng.choice([scal(), ['l', gvals(rng, mc)], ['n', gvals(rng, mc)]])

def gen_history(rng, nops_max=30):
    malformed = rng.random() < 0.2
    n = rng.choice([1, 2, 3, 3, 4, 4, 5, 6]); m = rng.choice([1, 2, 2, 3, 3])
    objs = []
    nobj = rng.randint(4, 6)
    for k in range(nobj):
        kind = ['v', 'v', 'l', 'a'][k] if k < 4 else rng.choice(['v', 'v', 'l', 'a', 'b'])
        sz = gen_size(rng, n, malformed) if k != 0 else n
        if kind == 'v':
            objs.append(['v', gvals(rng, sz), malformed and rng.random() < 0.2, rng.choice(['list', 'list', 'nd', 'dict', 'sparse', 'copy'])])
        elif kind == 'l':
            objs.append(['l', gbools(rng, sz)])
        elif kind == 'a':
            rows = rng.choice([m, m, 1]) if k != 3 else m
            objs.append(['a', [gvals(rng, sz) for _ in range(rows)], rng.choice(['list', 'nd', 'sparse'])])
        else:
            objs.append(['b', [gbools(rng, sz) for _ in range(rng.choice([m, m, 1]))]])
    ops = [gen_op(rng, n, m, malformed) for _ in range(rng.randint(4, nops_max))]
    return {'objs': objs, 'ops': ops}

def gen_cases(rng, tier):
    nrand = 260 if tier == 'quick' else 5000
    cases = [gen_history(rng) for _ in range(nrand)]
    cases += small_scope(rng, tier)
    return cases

def small_scope(rng, tier):
    """every operand kind x operator on vectors of size <= 3 over {0, 1, -1, 1/2}: exhaustive in thorough, a sample in quick"""
    A = [0.0, 1.0, -1.0, 0.5]
    cases = []
    sizes = [1, 2] if tier == 'quick' else [1, 2, 3]
    for n in sizes:
        vecs = [list(v) for v in itertools.product(A, repeat=n)]
        bvecs = [list(v) for v in itertools.product([False, True], repeat=n)]
        others = {}
        for k in sorted(set([1, n])):
            others[k] = [list(v) for v in itertools.product(A, repeat=k)]
        for name in ARITH + CMPS:
            for inplace in ([False] if name in CMPS else [False, True]):
                combos = []
                for v in vecs:
                    for k, ws in others.items():
                        for w in ws:
                            combos.append((v, w))
                if tier == 'quick':
                    combos = rng.sample(combos, min(len(combos), 6))
                elif n == 3:
                    combos = rng.sample(combos, min(len(combos), 400))
                # one history per chunk of combos: [v, w-as-vector, ...]; each combo exercises sparse, list, ndarray and scalar operands
                for v, w in combos:
                    objs = [['v', v, False], ['v', w, False], ['l', [bool(x) for x in w]], ['a', [w, v] if len(w) == len(v) else [w]]]
                    ops = []
                    tag = 'ibin' if inplace else 'bin'
                    for arg in (['o', 1, ['v']], ['l', w], ['n', w], ['o', 2, ['l']], ['o', 3, ['a']], ['s', w[0]], ['o', 0, ['v']]):
                        if inplace:
                            ops.append(['un', 'copy', 0])
                            ops.append([tag, name, -1, ['o', -1, ['v']] if arg == ['o', 0, ['v']] else arg])
                        else:
                            ops.append([tag, name, 0, arg])
                    cases.append({'objs': objs, 'ops': ops})
        for name in LOGI + ['add', 'mul', 'truediv'] + CMPS:
            combos = [(a, b) for a in bvecs for b in bvecs + [[False], [True]]]
            if tier == 'quick': combos = rng.sample(combos, min(len(combos), 3))
            for a, b in combos:
                objs = [['l', a], ['l', b], ['v', [float(x) for x in b], False]]
                ops = []
                for arg in (['o', 1, ['l']], ['bl', b], ['bn', b], ['sb', b[0]], ['o', 0, ['l']]):
                    ops.append(['bin', name, 0, arg])
                    if name not in CMPS:
                        ops.append(['un', 'copy', 0])
                        ops.append(['ibin', name, -1, ['o', -1, ['l']] if arg == ['o', 0, ['l']] else arg])
                cases.append({'objs': objs, 'ops': ops})
    return cases

def oracle(case):
    return None
