"""C12 — changing how a stream represents phases never changes what it contains.
Correspondence harness (real tmo.Stream / tmo.MultiStream vs coq/C12/Model.v), generators, direct oracle."""
import itertools, re
import numpy as np
from fractions import Fraction as F
from vf import q, qlist, clist, cbool, cnat, copt, frac, fr_json

ID = 'C12'
COQ_DIR = 'C12'
COQ_HEADER = 'From V Require Import Common.Num C12.Model.\nOpen Scope Q_scope.'
RULE = ('histories of 3-30 operations (phases=, phase=, reduce_phases, as_stream, .vle/.lle/.sle, s[phase] view creation, '
        'writes through views (molar and mass basis, mass-basis reads that fill the view\'s cache) and through the parent, T/P writes through either side, get_data, set_data of any earlier '
        'snapshot, plus a malformed stream: invalid labels, empty/duplicate phase collections, uncovered targets, locked view '
        'phase) on a real Stream or MultiStream (made by the constructor, or by MultiStream.from_streams from existing streams with their own T, P and caches) over a 3-chemical stub package, dyadic flows distributed over a subset of '
        's l g S L; after EVERY operation class, phases tuple, per phase x chemical flows, T, P, the flows/T/P seen through '
        'every view object obtained so far (and what its cached mass-basis indexer reads, when filled), whether it is still the parent\'s cached sub-stream, identity of what s[phase] '
        'returned and the exception class of the first raise are compared with the Coq model (values to 1e-9, structure '
        'exactly).  thorough adds all depth-4 histories over an 8-operation alphabet from every phase subset of size <= 3. '
        'non-trivial = at least two operations returned and the observation changed; distinct = distinct case hash')
ASSUMPTIONS = ['Stream.vle/.lle/.sle rewrite the phase label before converting (known findings C12:vle-relabels-solid, '
               'C12:vle-S-raises, C12:lle-relabels-nonliquid, C12:sle-relabels-gas, C12:sle-S-into-l): the accessor clause is '
               'proved only for MultiStreams and for Streams whose phase is one of the equilibrium phases '
               '(C12_accessor_moves_nothing_refuted / _partial)',
               'float rounding is not modelled (dyadic inputs; values compared to 1e-9 relative, structure exactly)',
               'a history stops at the first exception (the half-converted object a failed Stream.phases assignment leaves '
               'behind is not explored further)',
               'views_live is about sub-streams that are still in the parent\'s _streams cache: a view obtained before the '
               'stream collapsed to a single phase, or whose label has no row any more, is a detached Stream by design',
               'histories convert the stream, not its sub-streams: a sub-stream that is itself made multi-phase '
               '(ms["l"].vle) becomes an independent MultiStream (outside the quantifier; see pending fix C12_4)']
TRUSTED = ['model coq/C12/Model.v is hand-written from _stream.py/_multi_stream.py/indexer.py/_phase.py; tie = correspondence check',
           'rows are modelled by their dense values (sparse dictionary layout is C09); the equilibrium solver objects handed '
           'out by .vle/.lle/.sle are not modelled, only the accessor\'s effect on the stream',
           'labels outside s l g S L are generated only where the code validates them (phases=); MultiStream.phase = "q" '
           'silently builds a Stream with an invalid label and is not generated']

N = 3
IDS = ['A_', 'B_', 'C_']
MWS = [16., 32., 8.]
MASSVALS = [0., 16., 64., -8., 4., 256., 0.5, 48.]
PH = {'L': 'PL', 'S': 'PS', 'g': 'Pg', 'l': 'Pl', 's': 'Ps'}
ALL = ['L', 'S', 'g', 'l', 's']
VALS = [0., 1., -1., 0.5, -0.5, 2., 3., 0.25, 1024., 1 / 1024., 8., 1.5]
TS = [298.15, 300., 350.5, 273.15, 512.]
PS_ = [101325., 50000., 2.5, 1e5]
ERR = {'RuntimeError': 'ERuntime', 'UndefinedPhase': 'EUndefPhase', 'TypeError': 'EType', 'IndexError': 'EIndex',
       'AttributeError': 'EOther', 'ValueError': 'EValue'}

_env = {}
def env():
    if not _env:
        import thermosteam as tmo
        chems = tmo.Chemicals([tmo.Chemical(n, search_db=False, MW=mw, Hf=0., Cn=64., phase='l', default=True)
                               for n, mw in [('A_', 16.), ('B_', 32.), ('C_', 8.)]])
        tmo.settings.set_thermo(chems)
        _env['tmo'] = tmo
    return _env

# ------------------------------------------------------------------ generators
def gen_vec(rng, p_zero=0.3):
    if rng.random() < p_zero:
        return [0.] * N
    return [rng.choice(VALS) if rng.random() < 0.7 else 0. for _ in range(N)]

def gen_from_streams(rng):
    """existing single-phase streams (own T, P, possibly a filled mass cache) handed to MultiStream.from_streams"""
    r = rng.random()
    k = 0 if r < 0.03 else rng.choice([1, 2, 2, 2, 3, 3, 4, 5])
    phases = rng.sample(ALL, k)
    if phases and r > 0.95: phases.append(rng.choice(phases))          # malformed: a phase twice
    return {'kind': 'from_streams',
            'streams': [{'phase': p, 'flow': gen_vec(rng, 0.2), 'T': rng.choice(TS), 'P': rng.choice(PS_),
                         'mass': rng.random() < 0.3} for p in phases]}

def gen_init(rng, subset=None):
    if subset is None and rng.random() < 0.2:
        return gen_from_streams(rng)
    if subset is None:
        k = rng.choice([1, 1, 2, 2, 2, 3, 3, 4, 5])
        subset = sorted(rng.sample(ALL, k))
    T, P = rng.choice(TS), rng.choice(PS_)
    if len(subset) == 1:
        return {'kind': 'single', 'phase': subset[0], 'flow': gen_vec(rng, 0.15), 'T': T, 'P': P}
    return {'kind': 'multi', 'phases': subset, 'rows': [gen_vec(rng) for _ in subset], 'T': T, 'P': P}

def gen_target(rng):
    r = rng.random()
    if r < 0.08:
        return rng.choice([[], ['q'], ['q', 'l'], ['g', 'q', 'l'], ['l', 'l'], ['s', 's', 'S']])
    k = rng.choice([1, 2, 2, 2, 3, 3, 4, 5])
    t = rng.sample(ALL, k)
    if rng.random() < 0.15:
        t.append(rng.choice(t))
    return t

def gen_op(rng):
    r = rng.random()
    if r < 0.20: return ['phases', gen_target(rng)]
    if r < 0.27:
        k = rng.choice([0, 1, 1, 1, 2, 2, 3])
        return ['phase', [rng.choice(ALL) for _ in range(k)]]
    if r < 0.33: return ['reduce']
    if r < 0.345: return ["as_stream"]
    if r < 0.46: return [rng.choice(['vle', 'lle', 'sle'])]
    if r < 0.58: return ['view', rng.choice(ALL) if rng.random() < 0.12 else '@present:%d' % rng.randrange(1 << 30)]
    if r < 0.63: return ['wview', rng.randrange(64), rng.randrange(N), rng.choice(VALS)]
    if r < 0.655: return ['vmass', rng.randrange(64)]
    if r < 0.68: return ['wvmass', rng.randrange(64), rng.randrange(N), rng.choice(MASSVALS)]
    if r < 0.77: return ['wpar', rng.choice(ALL) if rng.random() < 0.12 else '@present:%d' % rng.randrange(1 << 30),
                         rng.randrange(N), rng.choice(VALS)]
    if r < 0.80: return ['T', rng.choice(TS)]
    if r < 0.82: return ['P', rng.choice(PS_)]
    if r < 0.85: return ['vT', rng.randrange(64), rng.choice(TS)]
    if r < 0.87: return ['vP', rng.randrange(64), rng.choice(PS_)]
    if r < 0.88: return ['vphase', rng.randrange(64), rng.choice(ALL)]
    if r < 0.94: return ['save']
    return ['restore', rng.randrange(64)]

def covered_target(rng, nonempty):
    """a target that contains every currently non-empty phase up to case (keeps histories alive)"""
    t = []
    for p in nonempty:
        t.append(p if rng.random() < 0.7 else p.swapcase() if p != 'g' else p)
    extra = [x for x in ALL if x not in t]
    rng.shuffle(extra)
    t += extra[:rng.choice([0, 1, 1, 2])]
    return t

def gen_cases(rng, tier):
    cases = []
    n = 260 if tier == 'quick' else 2500
    for i in range(n):
        init = gen_init(rng)
        L = rng.randint(3, 30)
        guided = rng.random() < 0.88
        ops = []
        for _ in range(L):
            o = gen_op(rng)
            if guided and o[0] in ('phases', 'phase') and rng.random() < 0.85:
                o = [o[0], ['@covered', rng.randrange(1 << 30)]]
            ops.append(o)
        cases.append({'init': init, 'ops': ops})
    if tier == 'thorough':
        cases += exhaustive_cases()
    return cases

def exhaustive_cases():
    """all depth-4 histories over an 8-operation alphabet from every phase subset of size <= 3"""
    cases = []
    vals = [[1., 0., 2.], [0.5, 4., 0.], [0., 8., 0.25]]
    for k in (1, 2, 3):
        for subset in itertools.combinations(ALL, k):
            subset = list(subset)
            if k == 1:
                init = {'kind': 'single', 'phase': subset[0], 'flow': vals[0], 'T': 300., 'P': 101325.}
            else:
                init = {'kind': 'multi', 'phases': subset, 'rows': vals[:k], 'T': 300., 'P': 101325.}
            swapped = sorted({(p.swapcase() if p != 'g' else p) for p in subset} | {'g', 'l'})
            alphabet = [['reduce'], ['vle'], ['lle'], ['sle'], ['phases', swapped], ['view', subset[0]],
                        ['wvmass', 0, 0, 48.], ['restore', 0]]
            for seq in itertools.product(alphabet, repeat=4):
                cases.append({'init': init, 'ops': [['save']] + [list(o) for o in seq]})
    return cases

CORPUS = [
    # DESIGN.md section 5 item 14: view detached after ms.phases = ...
    {'init': {'kind': 'multi', 'phases': ['g', 'l'], 'rows': [[1., 2., 0.], [0., 0., 0.]], 'T': 300., 'P': 101325.},
     'ops': [['view', 'l'], ['wview', 0, 0, 5.], ['phases', ['g', 'l', 's']], ['wview', 0, 0, 7.], ['wpar', 'l', 1, 2.]]},
    # mass-basis cache of a view filled before the phase set changes (explicitly / through an accessor / by removal)
    {'init': {'kind': 'multi', 'phases': ['g', 'l'], 'rows': [[0.5, 0., 0.], [1., 2., 0.]], 'T': 300., 'P': 101325.},
     'ops': [['view', 'l'], ['view', 'g'], ['vmass', 0], ['vmass', 1], ['phases', ['g', 'l', 's']], ['wpar', 'l', 0, 7.],
             ['wvmass', 0, 1, 64.], ['lle'], ['wvmass', 1, 0, 48.], ['wpar', 'g', 2, 3.], ['phases', ['g', 'l']], ['wvmass', 0, 2, 4.]]},
    # MultiStream accessors must only ADD phases: non-empty upper-case phases keep label and material
    {'init': {'kind': 'multi', 'phases': ['L', 'l'], 'rows': [[1., 0., 2.], [3., 4., 0.]], 'T': 300., 'P': 101325.},
     'ops': [['vle'], ['sle'], ['wpar', 'L', 0, 0.5], ['lle']]},
    {'init': {'kind': 'multi', 'phases': ['S', 'l', 's'], 'rows': [[1., 0., 2.], [3., 4., 0.], [0., 0.5, 0.]], 'T': 300., 'P': 101325.},
     'ops': [['lle'], ['vle']]},
    # a held view across several successive phase-set changes and a restore that changes T and P
    {'init': {'kind': 'multi', 'phases': ['g', 'l'], 'rows': [[0.5, 0., 0.], [1., 2., 0.]], 'T': 350., 'P': 50000.},
     'ops': [['view', 'l'], ['view', 'g'], ['save'], ['T', 310.], ['P', 2.5], ['phases', ['g', 'l', 's']], ['phases', ['g', 'l', 's', 'L']],
             ['wview', 0, 0, 9.], ['wpar', 'l', 1, 10.], ['reduce'], ['sle'], ['wview', 0, 2, 3.], ['restore', 0], ['vT', 0, 333.],
             ['P', 1e5], ['wview', 1, 1, 0.25]]},
    # streams with their own T, P (and a filled mass cache) put together by from_streams; T/P written through either side
    {'init': {'kind': 'from_streams', 'streams': [
        {'phase': 'l', 'flow': [2., 0., 0.], 'T': 300., 'P': 101325., 'mass': True},
        {'phase': 'g', 'flow': [0., 1., 0.], 'T': 350.5, 'P': 50000., 'mass': False},
        {'phase': 'L', 'flow': [0., 0.5, 0.25], 'T': 273.15, 'P': 2.5, 'mass': False}]},
     'ops': [['T', 512.], ['vP', 2, 1e5], ['wview', 1, 0, 0.125], ['wvmass', 0, 1, 64.], ['phases', ['g', 'l', 'L', 's']], ['vT', 1, 300.],
             ['save'], ['P', 2.5], ['wpar', 'L', 2, 4.5], ['sle'], ['restore', 0], ['vphase', 2, 'L'], ['view', 'g']]},
    {'init': {'kind': 'from_streams', 'streams': [{'phase': 's', 'flow': [1., 0., 0.], 'T': 300., 'P': 101325., 'mass': False},
                                                   {'phase': 'g', 'flow': [0., 0., 1.], 'T': 350.5, 'P': 2.5, 'mass': True}]},
     'ops': [['vphase', 0, 'l'], ['P', 50000.], ['view', 's'], ['wview', 0, 1, 3.], ['phases', ['g', 's', 'l']], ['vphase', 0, 'l'], ['vT', 1, 512.]]},
    {'init': {'kind': 'from_streams', 'streams': []}, 'ops': [['T', 300.]]},
    # snapshot of a single-phase stream, re-labelling accessor, restore: the saved label must come back
    {'init': {'kind': 'single', 'phase': 's', 'flow': [1., 0., 2.], 'T': 300., 'P': 101325.}, 'ops': [['save'], ['vle'], ['T', 350.5], ['restore', 0]]},
    {'init': {'kind': 'single', 'phase': 'L', 'flow': [1., 0., 2.], 'T': 300., 'P': 101325.}, 'ops': [['save'], ['sle'], ['restore', 0], ['save'], ['phase', ['g']], ['lle'], ['reduce'], ['restore', 1]]},
    # Stream accessors relabel (solid -> liquid) / raise for 'S' (known findings, see WITNESSES)
    {'init': {'kind': 'single', 'phase': 's', 'flow': [1., 0., 0.], 'T': 300., 'P': 101325.}, 'ops': [['vle']]},
    {'init': {'kind': 'single', 'phase': 'S', 'flow': [1., 0., 0.], 'T': 300., 'P': 101325.}, 'ops': [['vle']]},
    {'init': {'kind': 'single', 'phase': 'S', 'flow': [1., 0., 0.], 'T': 300., 'P': 101325.}, 'ops': [['sle']]},
    {'init': {'kind': 'single', 'phase': 'g', 'flow': [1., 0., 0.], 'T': 300., 'P': 101325.}, 'ops': [['lle']]},
    # set_data refuses when the current content has a phase the snapshot lacks
    {'init': {'kind': 'multi', 'phases': ['L', 'l'], 'rows': [[0., 2., 0.], [1., 0., 0.]], 'T': 310., 'P': 2000.},
     'ops': [['save'], ['phases', ['g', 'l', 'L']], ['wpar', 'g', 0, 3.], ['T', 400.], ['restore', 0]]},
    # empty single-phase stream converted to a phase set without its label (raised before repo commit 635bcdf)
    {'init': {'kind': 'single', 'phase': 'l', 'flow': [0., 0., 0.], 'T': 300., 'P': 101325.}, 'ops': [['phases', ['g', 's']]]},
    # snapshot of a one-phase MultiStream restored into a Stream / MultiStream (repo commit 684aafd)
    {'init': {'kind': 'multi', 'phases': ['s'], 'rows': [[1., 0., 2.]], 'T': 310., 'P': 2000.},
     'ops': [['save'], ['wpar', 's', 0, 3.], ['phases', ['g', 's', 'l']], ['view', 's'], ['restore', 0], ['T', 400.], ['save'],
             ['phases', ['L', 's']], ['restore', 0], ['restore', 1]]},
]
def _single(phase):
    return {'kind': 'single', 'phase': phase, 'flow': [1., 0., 2.], 'T': 300., 'P': 101325.}
# witnesses of C12_accessor_moves_nothing_refuted: the Stream accessors rewrite the phase label on purpose
# (a solid is flashed as liquid); by the property text the material leaves its phase => known findings
WITNESSES = [
    {'key': 'C12:vle-relabels-solid', 'case': {'init': _single('s'), 'ops': [['vle']]}},
    {'key': 'C12:vle-S-raises', 'case': {'init': _single('S'), 'ops': [['vle']]}},
    {'key': 'C12:lle-relabels-nonliquid', 'case': {'init': _single('g'), 'ops': [['lle']]}},
    {'key': 'C12:sle-relabels-gas', 'case': {'init': _single('g'), 'ops': [['sle']]}},
    {'key': 'C12:sle-S-into-l', 'case': {'init': _single('S'), 'ops': [['sle']]}},
]

# ------------------------------------------------------------------ implementation side
def build2(case):
    """the stream under test and the sub-stream objects that exist from the start"""
    tmo = env()['tmo']
    i = case['init']
    if i['kind'] != 'from_streams':
        return build(case), []
    streams = []
    for x in i['streams']:
        v = tmo.Stream(None, phase=x['phase'], T=x['T'], P=x['P'])
        v.imol.data[:] = np.array(x['flow'], float)
        if x['mass']: v.imass[IDS[0]]
        streams.append(v)
    return tmo.MultiStream.from_streams(streams), streams

def build(case):
    tmo = env()['tmo']
    i = case['init']
    if i['kind'] == 'single':
        s = tmo.Stream(None, phase=i['phase'], T=i['T'], P=i['P'])
        s.imol.data[:] = np.array(i['flow'], float)
        return s
    kw = {p: [(c, x) for c, x in zip(IDS, row) if x] for p, row in zip(i['phases'], i['rows'])}
    kw = {p: v for p, v in kw.items() if v}
    return tmo.MultiStream(None, phases=tuple(i['phases']), T=i['T'], P=i['P'], **kw)

def dense(x):
    return [float(v) for v in np.asarray(x.to_array() if hasattr(x, 'to_array') else x, float).reshape(-1)]

def flows_of(s):
    """list of (label, dense row) in the stream's own phase order"""
    tmo = env()['tmo']
    if type(s) is tmo.MultiStream:
        return [(p, dense(r)) for p, r in zip(s.phases, s._imol.data.rows)]
    return [(s.phase, dense(s.mol))]

def nonempty(s):
    return [p for p, r in flows_of(s) if any(r)]

def resolve_op(s, op, views, saved, rng_free=True):
    """turn a generated op into a concrete one for the current state; None = dropped"""
    import random
    name = op[0]
    if name in ('phases', 'phase') and op[1] and op[1][0] == '@covered':
        t = covered_target(random.Random(op[1][1]), nonempty(s))
        if name == 'phase':
            t = t[:3] if t else ['l']
            if type(s) is env()['tmo'].Stream: t = t[:1]
        return [name, t]
    if name in ('view', 'wpar') and op[1].startswith('@present'):
        rnd = random.Random(int(op[1].split(':')[1]))
        ps = list(s.phases)
        if not ps: return [name, 'l'] + list(op[2:])
        p = rnd.choice(ps)
        if p != 'g' and p.swapcase() not in ps and rnd.random() < 0.25: p = p.swapcase()
        return [name, p] + list(op[2:])
    if name == 'phase' and type(s) is env()['tmo'].Stream and len(op[1]) != 1 and random.Random(len(saved) + len(views)).random() < 0.8:
        return [name, [op[1][0] if op[1] else 'l']]
    if name in ('wview', 'vT', 'vP', 'vphase', 'vmass', 'wvmass'):
        if not views: return None
        return [name, op[1] % len(views)] + list(op[2:])
    if name == 'restore':
        if not saved: return None
        return [name, op[1] % len(saved)]
    return list(op)

def apply_op(s, op, views, saved):
    """executes a resolved op on the real objects; returns the `lastret` code or None"""
    name = op[0]
    if name == 'phases': s.phases = tuple(op[1])
    elif name == 'phase': s.phase = ''.join(op[1])
    elif name == 'reduce': s.reduce_phases()
    elif name == 'as_stream': s.as_stream()
    elif name == 'vle': s.vle
    elif name == 'lle': s.lle
    elif name == 'sle': s.sle
    elif name == 'view':
        v = s[op[1]]
        if v is s: return 0
        for k, w in enumerate(views):
            if w is v: return k + 1
        views.append(v)
        return len(views)
    elif name == 'wview': views[op[1]].imol[IDS[op[2]]] = op[3]
    elif name == 'vmass': views[op[1]].imass[IDS[0]]          # a mass-basis read: fills the view's mass cache
    elif name == 'wvmass': views[op[1]].imass[IDS[op[2]]] = op[3]
    elif name == 'wpar':
        tmo = env()['tmo']
        if type(s) is tmo.MultiStream: s.imol[op[1], IDS[op[2]]] = op[3]
        else: s.imol[IDS[op[2]]] = op[3]
    elif name == 'T': s.T = op[1]
    elif name == 'P': s.P = op[1]
    elif name == 'vT': views[op[1]].T = op[2]
    elif name == 'vP': views[op[1]].P = op[2]
    elif name == 'vphase': views[op[1]].phase = op[2]
    elif name == 'save': saved.append(s.get_data())
    elif name == 'restore': s.set_data(saved[op[1]])
    else: raise ValueError(name)
    return None

def peek_mass(v):
    """what the mass-basis indexer cached in the view's indexer object reads (None while the cache is empty);
    looking does not fill the cache"""
    m = v._imol._data_cache.get('mass')
    return None if m is None else [fr_json(frac(x)) for x in dense(m.data)]

def observe(s, views, lastret, saved):
    tmo = env()['tmo']
    fl = flows_of(s)
    streams = getattr(s, '_streams', {}) if type(s) is tmo.MultiStream else {}
    return {'multi': type(s) is tmo.MultiStream, 'phases': [p for p, _ in fl],
            'flows': [[fr_json(frac(x)) for x in r] for _, r in fl],
            'T': fr_json(frac(s.T)), 'P': fr_json(frac(s.P)),
            'views': [{'label': v.phase, 'flow': [fr_json(frac(x)) for x in dense(v.mol)], 'T': fr_json(frac(v.T)),
                       'P': fr_json(frac(v.P)), 'in': any(x is v for x in streams.values()), 'mass': peek_mass(v)} for v in views],
            'ret': lastret, 'saved': len(saved)}

def run_impl(case):
    try:
        s, views = build2(case)
    except ValueError as ex:
        if case['init']['kind'] != 'from_streams': raise
        return {'init': None, 'init_err': type(ex).__name__, 'ops': [], 'obs': [], 'err': None}
    saved, lastret = [], 0
    out = {'init': observe(s, views, lastret, saved), 'init_err': None, 'ops': [], 'obs': [], 'err': None}
    for op in case['ops']:
        r = resolve_op(s, op, views, saved)
        if r is None: continue
        out['ops'].append(r)
        try:
            ret = apply_op(s, r, views, saved)
        except Exception as ex:
            out['err'] = type(ex).__name__
            break
        if ret is not None: lastret = ret
        out['obs'].append(observe(s, views, lastret, saved))
    return out

# ------------------------------------------------------------------ model side
def cphase(p): return PH[p]
def cvec(js): return qlist([F(x) for x in js])

def cobs(o):
    vs = clist([f'(mkvobs {cphase(v["label"])} {cvec(v["flow"])} {q(F(v["T"]))} {q(F(v["P"]))} {cbool(v["in"])} '
                f'{copt(v["mass"], cvec)})'
                for v in o['views']])
    return (f'(mkobs {cbool(o["multi"])} {clist(o["phases"], cphase)} {clist([cvec(r) for r in o["flows"]])} '
            f'{q(F(o["T"]))} {q(F(o["P"]))} {vs} {cnat(o["ret"])} {cnat(o["saved"])})')

def cop(o):
    n = o[0]
    if n == 'phases':
        good = [p for p in o[1] if p in PH]
        return f'(OSetPhases {clist(good, cphase)} {cbool(len(good) != len(o[1]))})'
    if n == 'phase': return f'(OSetPhase {clist(o[1], cphase)})'
    if n == 'reduce': return 'OReduce'
    if n == 'as_stream': return 'OAsStream'
    if n in ('vle', 'lle', 'sle'): return f'(OAcc A{n.capitalize()})'
    if n == 'view': return f'(OView {cphase(o[1])})'
    if n == 'wview': return f'(OWriteView {cnat(o[1])} {cnat(o[2])} {q(o[3])})'
    if n == 'wpar': return f'(OWriteParent {cphase(o[1])} {cnat(o[2])} {q(o[3])})'
    if n == 'T': return f'(OSetT {q(o[1])})'
    if n == 'P': return f'(OSetP {q(o[1])})'
    if n == 'vT': return f'(OViewSetT {cnat(o[1])} {q(o[2])})'
    if n == 'vP': return f'(OViewSetP {cnat(o[1])} {q(o[2])})'
    if n == 'vphase': return f'(OViewSetPhase {cnat(o[1])} {cphase(o[2])})'
    if n == 'vmass': return f'(OViewMassTouch {cnat(o[1])})'
    if n == 'wvmass': return f'(OViewMassWrite {cnat(o[1])} {cnat(o[2])} {q(o[3])})'
    if n == 'save': return 'OSave'
    if n == 'restore': return f'(ORestore {cnat(o[1])})'
    raise ValueError(n)

def cinit(case):
    i = case['init']
    if i['kind'] == 'from_streams':
        ss = clist([f'(mkss {cphase(x["phase"])} {qlist(x["flow"])} {q(x["T"])} {q(x["P"])} {cbool(x["mass"])})' for x in i['streams']])
        return f'(from_streams {cnat(N)} {qlist(MWS)} {ss})'
    return f'(Ok {cinit0(case)})'

def cinit0(case):
    i = case['init']
    if i['kind'] == 'single':
        return f'(init_single {cnat(N)} {qlist(MWS)} {cphase(i["phase"])} {qlist(i["flow"])} {q(i["T"])} {q(i["P"])})'
    rows = sorted(zip(i['phases'], i['rows']))
    return (f'(init_multi {cnat(N)} {qlist(MWS)} {clist([f"({cphase(p)}, {qlist(r)})" for p, r in rows])} '
            f'{q(i["T"])} {q(i["P"])})')

def coq_case(case, out):
    err = None if out['err'] is None else ERR[out['err']]
    if out.get('init_err'):
        return f'(with_init {cinit(case)} (Some {ERR[out["init_err"]]}) (fun _ => true))'
    return (f'(with_init {cinit(case)} None (fun s0 => obs_eqb (observe s0) {cobs(out["init"])} && '
            f'trace_eqb s0 {clist([cop(o) for o in out["ops"]])} {clist([cobs(o) for o in out["obs"]])} {copt(err)}))')

def coq_show(case, out):
    return f'(match {cinit(case)} with Ok s0 => trace s0 {clist([cop(o) for o in out["ops"]])} | Err e => ([], Some e) end)'

def nontrivial(case, out):
    return bool(out.get('init_err')) or (len(out.get('obs', [])) >= 2 and any(o != out['init'] for o in out['obs']))

def classify(case, out):
    if out.get('init_err'): return ['init:from_streams', 'raise:from_streams:' + out['init_err']]
    ks = ['init:' + case['init']['kind'], 'len:%02d-%02d' % (len(out['ops']) // 10 * 10, len(out['ops']) // 10 * 10 + 9)]
    prev = out['init']
    for o, ob in zip(out['ops'], out['obs']):
        ks.append(f'op:{o[0]}:{"Multi" if prev["multi"] else "Stream"}->{"Multi" if ob["multi"] else "Stream"}')
        prev = ob
    if out['err']:
        ks.append(f'raise:{out["ops"][len(out["obs"])][0]}:{out["err"]}')
    return ks

# ------------------------------------------------------------------ direct oracle: the C12 clauses on the real objects
def swap(p): return p.swapcase()

def covers(target, ne):
    return all(p in target or (p != 'g' and swap(p) in target) for p in ne)

def close(a, b, tol=1e-9):
    return len(a) == len(b) and all(abs(x - y) <= tol * max(1., abs(x), abs(y)) for x, y in zip(a, b))

def totals(fl):
    t = [0.] * N
    for _, r in fl:
        t = [a + b for a, b in zip(t, r)]
    return t

CONVERSIONS = ('phases', 'phase', 'reduce', 'as_stream', 'vle', 'lle', 'sle', 'view', 'save')

def oracle(case):
    tmo = env()['tmo']
    try:
        s, views = build2(case)
    except ValueError:
        ps = [x['phase'] for x in case['init'].get('streams', [])]
        if ps and len(set(ps)) == len(ps): return 'from_streams: raised ValueError for streams of distinct phases'
        return None
    views = list(views); saved = []
    live = [True] * len(views)   # per view: still expected to be a live sub-stream (same multi-phase episode, label has a row)
    keys = [v.phase for v in views]   # the phase under which each sub-stream was obtained
    records = []     # independent record of what was saved
    known_msg = None
    for k, v in enumerate(views):     # streams handed to from_streams are sub-streams from the start
        if v.T != s.T or v.P != s.P:
            return f'view {k} ({keys[k]}) does not share T/P with its parent right after from_streams'
        if dense(v.mol) != dict(flows_of(s))[keys[k]]:
            return f'views_live: sub-stream {keys[k]!r} does not read the parent\'s row right after from_streams'
    for step, op in enumerate(case['ops']):
        r = resolve_op(s, op, views, saved)
        if r is None: continue
        name = r[0]
        before = flows_of(s); ne = nonempty(s); T0, P0 = s.T, s.P
        was_multi = type(s) is tmo.MultiStream
        before_views = [dense(v.mol) for v in views]
        if name == 'save':
            records.append((type(s), tuple(s.phases), [list(x) for _, x in before], T0, P0))
        # is the operation inside the property's quantifier?
        required = True       # must return normally
        if name == 'phases':
            t = r[1]
            required = all(p in PH for p in t) and covers(set(t), ne) and not (was_multi and len(s.phases) == 0 and len(set(t)) == 1)
        elif name == 'phase':
            t = r[1]
            required = (covers(set(t), ne) or (was_multi and len(t) == 0 and covers({'l'}, ne))) and \
                       (len(t) == 1 if not was_multi else len(s.phases) > 0)
        elif name == 'as_stream':
            groups = {p.lower() for p in ne}
            required = len(groups) <= 1 and (not was_multi or len(s.phases) > 0)
        elif name == 'reduce':
            required = not was_multi or len(s.phases) > 0 or True
            if was_multi and len(s.phases) == 0: required = False
        elif name == 'view':
            required = (r[1] in s.phases or (r[1] != 'g' and swap(r[1]) in s.phases)) if was_multi else r[1].lower() == s.phase.lower()
        elif name == 'vphase':
            required = views[r[1]].phase == r[2] or type(views[r[1]]._imol._phase).__name__ == 'Phase'
        elif name == 'wpar':
            required = (not was_multi) or r[1] in s.phases or (r[1] != 'g' and swap(r[1]) in s.phases)
        was = f"[was {'MultiStream' if was_multi else 'Stream'} ({','.join(p for p, _ in before)})]"
        try:
            ret = apply_op(s, r, views, saved)
        except Exception as ex:
            if required:
                return f'{name}: raised {type(ex).__name__} although the operation is inside the property\'s quantifier (step {step}, {r}) {was}'
            return None
        while len(live) < len(views): live.append(True); keys.append(views[len(keys)].phase)
        if name == 'view' and ret:
            live[ret - 1] = True     # whatever s[phase] hands out IS the sub-stream of the multi-phase stream now
        after = flows_of(s); T1, P1 = s.T, s.P
        is_multi = type(s) is tmo.MultiStream
        if name in CONVERSIONS:
            if not close(totals(before), totals(after)):
                return f'{name}: per-chemical totals changed {totals(before)} -> {totals(after)} (step {step}, {r})'
            if (T0, P0) != (T1, P1):
                return f'{name}: T/P changed ({T0},{P0}) -> ({T1},{P1})'
            new = [p for p, _ in after]
            if name in ('view', 'save') and after != before:
                return f'{name}: changed flows or phases'
            if name in ('vle', 'lle', 'sle') and was_multi:
                # merely asking a MultiStream for a solver object: every phase keeps its label and its material,
                # phases are only added (C12_accessor_moves_nothing_partial)
                for p, row in before:
                    if p not in new:
                        return (f'{name}: placement: asking for the solver object removed phase {p!r} (it held {row}); '
                                f'phases now {tuple(new)} (step {step}, {r}) {was}')
                    if dict(after)[p] != row:
                        return (f'{name}: placement: asking for the solver object changed phase {p!r}: {row} -> {dict(after)[p]} '
                                f'(step {step}, {r}) {was}')
                for p, row in after:
                    if p not in dict(before) and any(row):
                        return f'{name}: placement: the added phase {p!r} is not empty: {row} (step {step}, {r}) {was}'
            if covers(set(new), ne) or name in ('vle', 'lle', 'sle', 'reduce', 'as_stream'):
                # placement: material of p ends in p if the result has p, else in the other case
                def placement_msg():
                    exp = {p: [0.] * N for p in new}
                    for p, row in before:
                        if not any(row): continue
                        d = p if p in new else (swap(p) if p != 'g' and swap(p) in new else None)
                        if d is None:
                            return f'{name}: material of phase {p!r} has no place in the resulting phases {tuple(new)} (step {step}, {r}) {was}'
                        exp[d] = [a + b for a, b in zip(exp[d], row)]
                    for p, row in after:
                        if not close(row, exp[p]):
                            return f'{name}: placement: phase {p!r} holds {row}, expected {exp[p]} (step {step}, {r}) {was}'
                msg = placement_msg()
                if msg:
                    # a registered relabel of a Stream accessor does not end the history: what follows (a restore, views ...)
                    # is still checked, and the registered message is reported only if nothing else fails
                    if finding_key(case, msg) not in REGISTERED: return msg
                    known_msg = known_msg or msg
        elif name in ('wview', 'wpar'):
            pass
        elif name in ('T', 'P', 'vT', 'vP', 'vphase', 'vmass'):
            if after != before: return f'{name}: changed flows or phases'
        if name == 'restore':
            cls, phases, rows, T, P = records[r[1]]
            # (a one-phase MultiStream comes back as a Stream of that phase: the class is not part of the clause then)
            if (len(phases) != 1 and type(s) is not cls) or tuple(s.phases) != phases or [x for _, x in after] != rows or (T1, P1) != (T, P):
                return (f'restore: set_data(get_data()) gives {type(s).__name__} {tuple(s.phases)} {[x for _, x in after]} T={T1} P={P1}, '
                        f'saved {cls.__name__} {phases} {rows} T={T} P={P}')
        # liveness of the sub-streams obtained so far
        cur = [p for p, _ in after]
        for k, v in enumerate(views):
            lbl = keys[k]
            d = lbl if lbl in cur else (swap(lbl) if lbl != 'g' and swap(lbl) in cur else None)
            if not is_multi or d is None: live[k] = False
            if v.T != s.T or v.P != s.P:
                return f'view {k} ({lbl}) does not share T/P with its parent after {name} (step {step})'
            if live[k]:
                row = dict(after)[d]
                m = v._imol._data_cache.get('mass')      # looked at, not filled
                if m is not None and not close(dense(m.data), [x * w for x, w in zip(row, MWS)]):
                    return (f'views_live(mass basis): after {name} the sub-stream {lbl!r} obtained earlier reads {dense(m.data)} kg/hr '
                            f'but the parent\'s {d!r} row is {row} kmol/hr (step {step}, {r})')
                if dense(v.mol) != row:
                    return (f'views_live: after {name} the sub-stream {lbl!r} obtained earlier reads {dense(v.mol)} but the '
                            f'parent\'s {d!r} row is {row} (step {step}, {r})')
        if name == 'wview' and live[r[1]]:
            lbl = keys[r[1]]
            d = lbl if lbl in cur else swap(lbl)
            if dict(after)[d][r[2]] != r[3]:
                return f'views_live: write through sub-stream {lbl!r} is not visible in the parent (step {step}, {r})'
        if name == 'wvmass' and live[r[1]]:
            lbl = keys[r[1]]
            d = lbl if lbl in cur else swap(lbl)
            if not close([dict(after)[d][r[2]]], [r[3] / MWS[r[2]]]):
                return (f'views_live(mass basis): write of {r[3]} kg/hr through sub-stream {lbl!r} is not visible in the parent '
                        f'({dict(after)[d][r[2]]} kmol/hr, step {step}, {r})')
        if name == 'wpar':
            lbl = r[1] if is_multi else s.phase
            d = lbl if lbl in cur else swap(lbl)
            if dict(after)[d][r[2]] != r[3]: return f'wpar: value not stored'
            for p, row in after:
                old = dict(before)[p]
                if [x for i, x in enumerate(row) if (p, i) != (d, r[2])] != [x for i, x in enumerate(old) if (p, i) != (d, r[2])]:
                    return 'wpar: another entry changed'
    return known_msg

REGISTERED = {w['key'] for w in WITNESSES}

def finding_key(case, msg):
    head = msg.split(':')[0]
    if head in ('vle', 'lle', 'sle'):
        # the five registered findings are exactly: a single-phase Stream whose label the accessor rewrites
        m = re.search(r"\[was (\w+) \((.*?)\)\]", msg)
        cls, phs = (m.group(1), m.group(2)) if m else ('?', '?')
        kind = 'raised' if 'raised' in msg else 'no-place' if 'has no place' in msg else 'placement'
        if cls == 'Stream':
            if (head, phs, kind) == ('vle', 's', 'no-place'): return 'C12:vle-relabels-solid'
            if (head, phs, kind) == ('vle', 'S', 'raised'): return 'C12:vle-S-raises'
            if head == 'lle' and phs in ('g', 's', 'S') and kind == 'no-place': return 'C12:lle-relabels-nonliquid'
            if (head, phs, kind) == ('sle', 'g', 'no-place'): return 'C12:sle-relabels-gas'
            if (head, phs, kind) == ('sle', 'S', 'placement'): return 'C12:sle-S-into-l'
        return f'C12:{head}-{kind}-{cls}-{phs}'
    if head.startswith('view '): head = 'view-TP'
    if head.startswith('views_live(mass'): head = 'views_live_mass'
    if 'raised' in msg: head += '-raised'
    if 'has no place' in msg: head += '-no-place'
    return 'C12:' + head.replace(' ', '_')
